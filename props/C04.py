from vlib.engine import Job
from props.common import *

EXPLANATION = ("Bounded symbolic checking (engine S, REAL mode) of MatrixTools.h on RowMatrix/ColMatrix/LinearMatrix: shapes and storage classes are forked, every entry is a solver variable; "
               "each routine is compared with its textbook definition written as plain loops in the harness: equalities are polynomial identities decided by normal form, "
               "extremum search / symmetry / assignment optimality are sign questions decided by z3 on every path; an out-of-range element access aborts the path (libstdc++ assertions) and is reported.")
FUNCTIONS = ["MatrixTools::{mult (5 overloads), add (2), scale, fill, copy, getId, diag (3), transpose, isSymmetric, pow(size_t), Taylor, kroneckerMult (3), hadamardMult (3), directSum (2), covar, "
             "max, min, whichMax, whichMin, sumElements, toVVdouble, lap}", "RowMatrix/ColMatrix/LinearMatrix::{operator(), resize, getNumberOfRows, getNumberOfColumns}"]
BOUNDS = ("every dimension of every operand in 1..3 (quick) / 1..4 (thorough: products, sums, Hadamard, transpose; covariance and extremum searches stay at 1..3: at 1..4 the job produces about a million paths and was not run to completion) plus the all-0x0 case; every storage class for each operand and the result "
          "(the 4-6 operand complex routines use the three cyclic assignments); integer power p<=5 (n<=2) / p<=4 (n=3); assignment solver n<=3 (both tiers; n=4 measured: no path finishes in 700 s) with all n! permutations as oracle; all real entries")
OUTSIDE = ["shapes above 3 (4) per dimension", "shapes with exactly one zero dimension (not representable: an r x 0 ColMatrix reports 0 rows)", "rounding (REAL mode proves the exact sums)",
           "pow(A,double) and exp (eigen-decomposition based, see C06)", "copyUp/copyDown/fillDiag/print (not named by the property)"]
ASSUMPTIONS = BASE_ASSUMPTIONS
LEVEL_TEXT = ("Bounded symbolic checking: for every shape/storage configuration within the bound the compiled routine is executed on symbolic entries and its result is shown equal to the textbook definition "
              "for all real entries; non-conformable configurations must raise DimensionException; the assignment solver is shown optimal against all permutations and its duals feasible and tight.")
LEVEL_NOTE = NOTE
TECHNIQUE = TECH
Q = ["DMAX=3", "PMAX=5", "LAPMAX=3"]
T = ["DMAX=4", "PMAX=6", "LAPMAX=4"]
JOBS = [
    Job("products", "C04.cpp", ["HLO=0", "HHI=3"] + Q, thorough_defines=["HLO=0", "HHI=3"] + T, budget_s=300, thorough_budget_s=3000, desc="plain, complex, diagonal-middle and complex diagonal-middle products"),
    Job("tridiagonal", "C04.cpp", ["HLO=4", "HHI=4", "DMAX=2"], thorough_defines=["HLO=4", "HHI=4", "DMAX=3"], budget_s=300, thorough_budget_s=3000, desc="A.(L+D+U).B with every length of D, U, L"),
    Job("sums-scaling", "C04.cpp", ["HLO=5", "HHI=7"] + Q, thorough_defines=["HLO=5", "HHI=7"] + T, budget_s=300, thorough_budget_s=3000, desc="sum, scaled sum, scale, fill, copy, identity, diag, transpose, symmetry"),
    Job("powers", "C04.cpp", ["HLO=8", "HHI=8"] + Q, thorough_defines=["HLO=8", "HHI=8", "DMAX=3", "PMAX=6"], budget_s=300, thorough_budget_s=3000, desc="integer power (three concrete classes) and power series"),
    Job("kronecker-hadamard-directsum", "C04.cpp", ["HLO=9", "HHI=11", "DMAX=2"], thorough_defines=["HLO=9", "HHI=11", "DMAX=3"], budget_s=400, thorough_budget_s=3000, desc="Kronecker (3 forms, presized or not), Hadamard (3 forms), direct sums (2 and 3 blocks)"),
    Job("covariance-extrema", "C04.cpp", ["HLO=12", "HHI=13"] + Q, budget_s=300, thorough_budget_s=1500, desc="covariance, max/min/whichMax/whichMin, element sum"),
    Job("assignment", "C04.cpp", ["HLO=14", "HHI=14"] + Q, budget_s=400, thorough_budget_s=1200, desc="linear assignment: optimal permutation and certifying duals"),
]
