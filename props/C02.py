from vlib.engine import Job
from props.common import *

EXPLANATION = ("Bounded symbolic checking (engine S, REAL mode) of ParameterList.cpp and AbstractParametrizable.h: the name sets of target and source list, their orders, each target's constraint kind and the "
               "operation are forked; every value and every interval bound is a solver variable, so 'inside / outside the target's constraint' and 'equal / different value' are decided by the solver on every path "
               "of the compiled code. A fresh symbolic value written through one list and read through the other distinguishes shared from copied parameter objects.")
FUNCTIONS = ["ParameterList::{setParametersValues,setAllParametersValues,matchParametersValues,testParametersValues,addParameter(s),includeParameters,shareParameter(s),deleteParameter(s) (4 overloads),"
             "createSubList (4),shareSubList (2),getCommonParametersWith,hasParameter,whichParameterHasName,getParameterValue,parameter,getParameter,copy ctor,operator=,reset}",
             "AbstractParametrizable::{setParametersValues,setAllParametersValues,matchParametersValues,setParameterValue,clone via copy}", "Parameter::{ctor,setValue}", "IntervalConstraint::isCorrect"]
BOUNDS = ("lists over a pool of 3 names (quick) / 4 names (thorough): every pair of name subsets, the source in natural, reversed and rotated order; each target parameter unconstrained, closed-interval or open-interval "
          "constrained with symbolic bounds; all real values (quick: the large jobs assume values > 0 to skip the constructor's sign split, a second job runs every sign over a pool of 2 names); "
          "one operation per path from an arbitrary list state; deletions/sub-lists by every subset of names in both orders and by the corresponding unsorted index sets")
OUTSIDE = ["lists with more than 4 parameters", "sequences of several bulk operations on one path (each operation is checked from an arbitrary state, which covers sequences as long as the state space is lists of <=4 parameters)",
           "non-zero parameter precision (excluded by the property)", "getMatchingParameterNames (tokeniser based; see C17)", "printParameters"]
ASSUMPTIONS = BASE_ASSUMPTIONS
LEVEL_TEXT = ("Bounded symbolic checking: for every configuration of names/orders/constraint kinds within the bound, every feasible path of the compiled list code is explored with values and bounds symbolic; "
              "atomicity, untouched names, changed flag/positions, unique names, addressing of deletions and sub-lists, and copy-vs-share are asserted on each path for all reals.")
LEVEL_NOTE = NOTE
TECHNIQUE = TECH
JOBS = [
    Job("bulk-updates", "C02.cpp", ["HLO=0", "HHI=0", "NPOOL=3", "CKINDS=2", "POSVALS"], thorough_defines=["HLO=0", "HHI=0", "NPOOL=4", "CKINDS=2", "POSVALS"], budget_s=300, thorough_budget_s=3000,
        desc="set/setAll/match/test on a list and through an owner: all-or-nothing, untouched names, flag and positions, notifications"),
    Job("add-include-share", "C02.cpp", ["HLO=1", "HHI=1", "NPOOL=3", "CKINDS=2", "POSVALS"], thorough_defines=["HLO=1", "HHI=1", "NPOOL=4", "CKINDS=2", "POSVALS"], budget_s=300, thorough_budget_s=3000,
        desc="add refuses an existing name, include/share turn into value updates, names stay unique, copies vs shared objects"),
    Job("lookup-delete-sublist", "C02.cpp", ["HLO=2", "HHI=3", "NPOOL=3", "CKINDS=1", "POSVALS"], thorough_defines=["HLO=2", "HHI=3", "NPOOL=4", "CKINDS=1", "POSVALS"], budget_s=300, thorough_budget_s=3000,
        desc="lookups, deletions by names / unsorted index sets, sub-lists (copied and shared), common parameters, copy/assign/clone independence"),
    Job("any-sign", "C02.cpp", ["HLO=0", "HHI=3", "NPOOL=2", "CKINDS=2"], budget_s=300,
        desc="the same four harnesses with values of every sign (including 0, the constructor's initial value)"),
]
