from vlib.kengine import KJob
import props.C16 as base
ENGINE = "K"
LEVEL = "other"
KERNELS, HARNESS, TAG, UNITS, API, RUNTIME_MODEL = base.KERNELS, base.HARNESS, base.TAG, base.UNITS, base.API, base.RUNTIME_MODEL
LMAX = {"quick": 3, "thorough": 4}
EXPLANATION = ("Bounded model checking (engine K, see C16) of the strict decimal grammar and of the conversion / trimming round-trip clauses that do not pass through iostream formatting: the two number recognisers are compared with a "
               "reference automaton of the documented grammar written in the harness (acceptance sets equal for every byte string of the length, every decimal and exponent character), number conversion is shown to raise the library's exception "
               "exactly when the recogniser rejects (and nothing else ever escapes), a single key=value item is split at the first separator so that re-joining gives the input back, and the leading / trailing / surrounding white-space and trailing new-line removers are shown idempotent (the two removers that build their result through a back-inserter gave no verdict within 10 minutes and are outside).")
FUNCTIONS = ["KeyvalTools::singleKeyval", "TextTools::{isDecimalNumber,isDecimalInteger,isEmpty,toInt,toDouble,removeSurroundingWhiteSpaces,removeFirstWhiteSpaces,removeLastWhiteSpaces,removeWhiteSpaces,removeNewLines,removeLastNewLines}"]
BOUNDS = "all byte strings of length 0..3 (quick) / 0..4 (thorough) for the grammar and the conversion equivalence, 0..2 for idempotence (quick: lengths 0 and 2, three removers); every decimal / exponent character that is not a digit or a sign; loop unwinding 10 with unwinding assertions"
OUTSIDE = ["the value returned by toInt/toDouble and 'numbers formatted with sufficient precision parse back' (iostream formatting/extraction: opaque in the model)", "tokenising and re-joining, nested tokenising, key-value procedures, argument substitution, wildcard matching, variable resolution, tables, distribution descriptions "
           "(std::deque / std::map / iostream based code: no verdict from CBMC within reach, measured in the design phase)", "strings longer than 4 bytes"]
ASSUMPTIONS = base.ASSUMPTIONS + ["the reference automaton in kharness/K_text_h.c is the documented grammar: optional '-', digits with at most one decimal separator, optional exponent character followed by an optional sign and at least one more character, no separator in the exponent"]
LEVEL_TEXT = ("Bounded model checking of the compiled real code: the recognisers accept exactly the strings of the strict decimal grammar, conversion raises iff the recogniser rejects, trimming is idempotent - for every byte string up to the bound. "
              "This is the part of the round-trip property that does not involve iostream or node-based containers; the rest is listed as outside.")
LEVEL_NOTE = "Trusted: as for C16 (clang-14 IR, ir2c translator + runtime model, CBMC 6.11). Partial claim: grammar, conversion/recogniser equivalence and trimming idempotence only."
TECHNIQUE = base.TECHNIQUE + "; differential check against a reference automaton"
JOBS = [
    KJob("harness_recognisers", range(0, 4), desc="recognisers = reference automaton of the strict decimal grammar"),
    KJob("harness_recognisers", [4], tiers=("thorough",), timeout_s=900),
    KJob("harness_toInt", range(0, 4), copy_unwind=100, desc="toInt raises the library's exception iff isDecimalInteger rejects"),
    KJob("harness_toDouble", range(0, 4), copy_unwind=100, desc="toDouble raises iff isDecimalNumber rejects"),
    KJob("harness_keyval", [0, 2], copy_unwind=120, timeout_s=600, desc="key=value splitting: accepted iff the separator occurs; key + separator + value gives the input back"),
    KJob("harness_keyval", [1, 3], copy_unwind=120, timeout_s=600, tiers=("thorough",)),
    KJob("harness_trim_idempotent", [0, 2], variants=[["WHICH=1"], ["WHICH=2"], ["WHICH=5"]], timeout_s=400, desc="trimming twice = trimming once (leading / trailing white space, trailing new lines)"),
    KJob("harness_trim_idempotent", [1], variants=[["WHICH=0"], ["WHICH=1"], ["WHICH=2"], ["WHICH=5"]], timeout_s=900, tiers=("thorough",), desc="idempotence, remaining lengths and the surrounding-white-space remover"),
    KJob("harness_trim_idempotent", [0, 2], variants=[["WHICH=0"]], timeout_s=900, tiers=("thorough",)),
]
def run(pid, tier):
    import sys
    from vlib import kengine
    return kengine.check_property(pid, sys.modules[__name__], tier)
