from vlib.engine import Job

EXPLANATION = ("Bounded symbolic checking of the real compiled code (engine S): every double operation of bpp-core and of the harness is "
               "redirected to a z3 term builder; each feasible path of Constraints.h / Parameter.cpp / AutoParameter.cpp / ParameterList.cpp is explored "
               "with bounds, values and test points as solver variables, and each assertion is discharged for all values on that path.")
FUNCTIONS = ["IntervalConstraint::{ctor,string ctor,readDescription,isCorrect,includes,isEmpty,getLimit,getAcceptedLimit,operator&,operator&=,operator>=}",
             "Parameter::{ctor,copy ctor,operator=,setValue,setConstraint,removeConstraint,setPrecision}",
             "AutoParameter::setValue", "ParameterList::{setParameterValue,setParametersValues,addParameter}",
             "AbstractParametrizable::setParameterValue"]
BOUNDS = ("all real bounds/values/test points (REAL mode); bracket descriptions from a 2x5x5x2 token grammar and all IEEE doubles except NaN (FP mode, kernels 0-3); each bound finite or infinite; 4 open/closed flags; "
          "one inductive step from an arbitrary valid state (any precision >= 0) for 7 mutators; histories of construct (any precision >= 0) + 2 calls out of {setValue,setConstraint,removeConstraint,copy+assign back,assign from another constrained parameter} (quick) / 3 calls out of the first four (thorough); "
          "auto-correcting parameter: |x|<=1e3, bounds in [-1e3,1e3], width>=1e-9, exact real arithmetic")
OUTSIDE = ["descriptions outside the finite token grammar of job description-parser (number syntax itself: C17 recognisers), malformed descriptions", "histories longer than 3 calls after construction", "non-zero precision of the auto-correcting parameter",
           "rounding of lowerBound+1e-12 in the auto-correcting parameter (REAL mode is exact arithmetic)"]
ASSUMPTIONS = ["z3 5.1.0 is sound for QF_NRA/QF_FP queries", "clang -O1 IR is the semantics of the code (no fast-math; FP contraction off)",
               "REAL mode: IEEE rounding is outside the claim", "message handler of AutoParameter set to null (output formatting is not the subject)"]

JOBS = [
    Job("kernels-real", "C01.cpp", ["HLO=0", "HHI=3"], mode="real", budget_s=400, desc="interval membership/emptiness/limits, intersection, construction, one inductive step of every mutator; all reals"),
    Job("fp-membership", "C01.cpp", ["HLO=0", "HHI=0", "FPMODE"], mode="fp", budget_s=120, desc="membership/emptiness/limits over all IEEE doubles (incl. +-inf, -0, subnormals), NaN excluded"),
    Job("fp-construct", "C01.cpp", ["HLO=2", "HHI=2", "FPMODE"], mode="fp", budget_s=120, desc="construction/copy over all IEEE doubles, NaN excluded"),
    Job("fp-intersection", "C01.cpp", ["HLO=1", "HHI=1", "FPMODE"], mode="fp", tiers=("thorough",), budget_s=1500, desc="intersection (both forms) over all IEEE doubles, NaN excluded"),
    Job("histories", "C01.cpp", ["HLO=4", "HHI=4", "NSTEPS=2"], thorough_defines=["HLO=4", "HHI=4", "NSTEPS=3", "OPMAX=3"], mode="real", budget_s=500, thorough_budget_s=3000, desc="construct (any precision >= 0) then 2 arbitrary calls out of setValue / setConstraint / removeConstraint / copy and assign back / assign from another constrained parameter with its own precision, incl. raising and precision-ignored ones (thorough: 3 calls without the last kind)"),
    Job("description-parser", "C01.cpp", ["HLO=6", "HHI=6"], mode="real", budget_s=300, desc="bracket descriptions from a finite grammar (2 opening x 2 closing brackets x 5 lower tokens incl. -inf x 5 upper tokens incl. inf / +inf, equal and crossing bounds included) read by the string constructor or by readDescription into an existing interval with arbitrary symbolic bounds and flags: membership of a symbolic test point, bounds, flags and emptiness are those the description denotes; a parameter constructed with the parsed constraint raises iff its value is outside"),
    Job("auto", "C01.cpp", ["HLO=5", "HHI=5"], mode="real", budget_s=120, replay_tol=1e-16, desc="auto-correcting parameter: never raises, ends accepted and nearest"),
]

LEVEL_TEXT = ("Bounded symbolic checking: for every discrete configuration listed in the evidence, every feasible path of the compiled bpp-core code is explored with "
              "bounds/values as solver variables and every assertion is discharged by z3 for all reals (and, for the membership/construct kernels, all non-NaN IEEE doubles). "
              "Inductive single steps from an arbitrary valid state cover histories of any length for the mutators; chained histories are bounded to 3 calls.")
LEVEL_NOTE = ("Trusted: clang-14 IR as semantics, the SymFP pass + runtime (validated by running the repo's own tests through the instrumented library), z3 5.1.0. "
              "REAL mode excludes IEEE rounding; the bracket-syntax parser is checked on a finite token grammar (job description-parser); number syntax itself under C17.")
TECHNIQUE = "symbolic execution of LLVM-IR-instrumented real code, path conditions and assertions decided by z3 (QF_NRA / QF_FP)"
