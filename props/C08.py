from vlib.engine import Job
from props.common import *

EXPLANATION = ("Bounded symbolic checking (engine S, REAL mode) of the *entry-point logic* of RandomTools' cumulative and quantile functions: arguments are solver variables constrained to a region in which the entry point returns or raises "
               "before its series / continued-fraction / Newton kernel starts, so the documented error signal (exception or sentinel), the end-of-support values and the wrapper identities are decided for all reals of the region. "
               "This is a partial claim: accuracy, monotonicity and inversion of the kernels are not encodable (input-dependent trip counts over transcendental arithmetic) and are listed as outside.")
FUNCTIONS = ["RandomTools::{qNorm (1 and 3 arguments),pNorm (3 arguments, wrapper only),pGamma,pChisq,qGamma,qChisq (domain test),incompleteGamma (domain tests),pBeta/incompleteBeta (domain tests, ends of the support),qBeta (domain tests, ends of the support)}"]
BOUNDS = ("all real arguments in each invalid region (negative shape / rate, probability outside the working range, argument outside the support) and at the ends of the support; normal quantile: all probabilities in [1e-20, 0.5) for the reflection and "
          "location-scale identities, all real mu and sigma > 0; normal cdf wrapper at three concrete standardised points with symbolic location and scale")
OUTSIDE = ["accuracy against a high-precision reference, shape recurrences and inversion cdf(quantile(p)) = p for every family; monotonicity and range outside the two closed-form kernels of the closed-form-kernels job (the other regions of the normal cdf use exp and truncation, the gamma/beta kernels are series, continued fractions, Newton / AS 109 / AS 91 iterations); monotonicity of the normal quantile across 1/2 (needs a numeric bracket of log 4 that the axioms do not provide; natively qNorm(0.5) = 1.5e-8)",
           "NaN and infinite arguments (REAL mode)", "the sentinel never being returned inside the valid region (would need the kernels)"]
ASSUMPTIONS = BASE_ASSUMPTIONS + ["lgamma is treated as an arbitrary real function (its value is never inspected on the explored paths)"]
LEVEL_TEXT = ("Bounded symbolic checking of the domain handling only: arguments outside the domain give exactly the documented exception or sentinel, the ends of the support give 0 / 1, qGamma/pChisq/qNorm(mu,sigma)/pNorm(mu,sigma) forward as documented, "
              "qNorm is antisymmetric about 1/2 - for all reals in the stated regions. The numerical kernels are outside this claim.")
LEVEL_NOTE = NOTE + " Partial claim (domain behaviour and wrappers); seeded changes inside the numeric kernels are out of its reach by construction."
TECHNIQUE = TECH
E = {"SYM_ABS_NOFORK": "1"}
JOBS = [
    Job("normal", "C08.cpp", ["HLO=0", "HHI=0"], env=E, budget_s=100, desc="qNorm sentinel region, reflection, location-scale wrapper"),
    Job("gamma-chisq", "C08.cpp", ["HLO=1", "HHI=1"], env=E, budget_s=100, desc="pGamma/pChisq/qChisq/qGamma/incompleteGamma: invalid regions, special values, forwarding"),
    Job("beta", "C08.cpp", ["HLO=2", "HHI=2"], env=E, budget_s=100, desc="pBeta/qBeta: invalid regions raise, ends of the support"),
    Job("closed-form-kernels", "C08.cpp", ["HLO=4", "HHI=4"], env=E, budget_s=200, replay_tol=1e-12, desc="normal cdf, central region |x|<=0.67448975 (a rational function): derivative >= 0 everywhere (symbolic differentiation), inside [0,1], on the right side of 1/2, reflection; normal quantile: non-decreasing on each side of 1/2 (two-point query through the sqrt/log monotonicity axioms and the rational tail formula)"),
    Job("pnorm-wrapper", "C08.cpp", ["HLO=5", "HHI=5"], env=E, budget_s=100, desc="pNorm(x, mu, sigma) = pNorm((x-mu)/sigma)"),
]
