from vlib.engine import Job
from props.common import *

EXPLANATION = ("Bounded symbolic checking (engine S, REAL mode) of RandomTools, ContingencyTableGenerator::rcont2 and the distributions' own draws with the uniform random source replaced by solver variables: an injected environment stub "
               "(engine_s/stub_random.h) makes std::generate_canonical<double,53,mt19937> - the source of libstdc++'s uniform_real, normal, gamma, exponential and bernoulli distributions - return a fresh unknown u_k in [0,1); "
               "rewinding the symbolic stream gives 'the same random stream' twice. Parameter conventions then become exact statements over all streams (e.g. exp(-x/mean) = 1-u for the exponential draw), "
               "weighted picks are the index whose cumulative-weight interval contains u, and random contingency tables have the requested margins on every path (every outcome of every comparison with u).")
FUNCTIONS = ["RandomTools::{giveRandomNumberBetweenZeroAndEntry,flipCoin,randExponential,randGaussian,randGamma (1,2 args),pickOne (4 overloads),pickFromCumSum,randMultinomial,getSample (2 overloads)}",
             "std::{uniform_real,exponential,normal,gamma,bernoulli}_distribution::operator() (libstdc++, compiled into the units)", "ContingencyTableGenerator::{ctor,rcont2}", "ContingencyTableTest::ContingencyTableTest (permutation p-value)",
             "GaussianDiscreteDistribution::randC", "ExponentialDiscreteDistribution::randC"]
BOUNDS = ("all real parameters > 0 (means, variances, rates, weights); gamma shape in {2.5, 1, 0.5}; at most 7 uniform draws per path for the rejection samplers (normal: polar method, gamma: Marsaglia-Tsang); "
          "weighted picks over 1-3 elements with every pattern of zero weights; multinomial 0-2 draws; contingency tables with 2-3 rows and columns and every margin vector with total <= 4 (thorough: <= 6); "
          "unweighted sampling: source sizes 0-4, sample sizes 0-5 (integer draws use the real generator)")
OUTSIDE = ["distributional goodness of fit (the claims are about parameter conventions and structure, for every stream)", "reproducibility of the Mersenne twister for a fixed seed (integer arithmetic of libstdc++)", "randBeta and the beta/gamma distributions' own draws (ratio of rejection-sampled gammas: more draws than the bound)",
           "the independence test with more than 2 permutations or tables beyond 2x2 with cells 0..2", "paths where the samplers take the logarithm of a uniform draw equal to 0 (IEEE -inf not modelled; counted)", "the few long double computations are carried out as double in the symbolic build (-mlong-double-64); REAL mode is exact arithmetic"]
ASSUMPTIONS = BASE_ASSUMPTIONS + ["the stub of std::generate_canonical<double,53,mt19937> is the only change to the random machinery; it is injected with -include in the verification builds only"]
LEVEL_TEXT = ("Bounded symbolic checking with the random stream as solver variables: the mean/rate/variance conventions of the samplers are identities over all streams, weighted and cumulative picks and multinomial draws return exactly the "
              "class whose interval contains the draw (zero-weight classes never), sampling keeps its structural constraints, random contingency tables have exactly the requested margins on every path.")
LEVEL_NOTE = NOTE
TECHNIQUE = TECH + " (random source stubbed to fresh symbolic uniforms)"
E = {"SYM_ABS_NOFORK": "1", "SYM_DIV0_PRUNE": "1", "SYM_MAX_DRAWS": "7"}
JOBS = [
    Job("samplers", "C18.cpp", ["HLO=0", "HHI=0"], env=E, budget_s=400, desc="uniform, coin, exponential(mean), gaussian(mean, variance), gamma(shape, rate), the gaussian / exponential / uniform / truncated-exponential / constant distributions' own continuous draws (cdf at the draw = the uniform variate), a discrete distribution's draw (class whose cumulative interval contains the variate)"),
    Job("picks", "C18.cpp", ["HLO=1", "HHI=1", "NMAX=3"], env=E, budget_s=200, desc="weighted picks with and without replacement, cumulative-sum picks, multinomial draws, weighted sampling"),
    Job("contingency-tables", "C18.cpp", ["HLO=2", "HHI=2", "TOTMAX=4"], thorough_defines=["HLO=2", "HHI=2", "TOTMAX=6"], env=E, budget_s=300, thorough_budget_s=3000, desc="rcont2: exactly the requested row and column totals for every margin vector and every random stream"),
    Job("independence-test", "C18.cpp", ["HLO=4", "HHI=4"], env=E, budget_s=200, desc="permutation independence test on every 2x2 table with cells 0..2, 1-2 permutations: p-value in (0,1] and of the form (count+1)/(permutations+1) for every random stream"),
    Job("sampling-structure", "C18.cpp", ["HLO=5", "HHI=5"], env=E, budget_s=100, desc="unweighted sampling with/without replacement: only source elements, distinct without replacement, over-long requests refused, emptiness reported"),
]
