from vlib.engine import Job
from props.common import *

EXPLANATION = ("Bounded symbolic checking (engine S, REAL mode) of RescaledHmmLikelihood, LowMemoryRescaledHmmLikelihood, LogsumHmmLikelihood and the two built-in transition models: the state alphabet, transition matrix and emission "
               "table are supplied by the harness; transition probabilities and emissions are solver variables (built from positive unknowns, so positivity of every scale is syntactic), break points, chunk size and the order of "
               "updates/queries are forked. Log-likelihoods are compared through their exp-view: the runtime carries out exp(sum c_k log a_k) = prod a_k^c_k exactly and compares log-space values through products, so the "
               "log-sum algorithm stays inside rational functions. The oracle is the sum over all hidden paths written in the harness.")
FUNCTIONS = ["AbstractHmmLikelihood::{getFirstOrderDerivative,getSecondOrderDerivative}", "RescaledHmmLikelihood::{computeDForward_,computeD2Forward_}", "LogsumHmmLikelihood::{computeDForward_,computeD2Forward_}", "RescaledHmmLikelihood::{ctor,computeForward_,computeBackward_,setBreakPoints,fireParameterChanged,getLogLikelihood,getValue,getHiddenStatesPosteriorProbabilities,getHiddenStatesPosteriorProbabilitiesForASite,getLikelihoodForASite,getLikelihoodForEachSite}",
             "LowMemoryRescaledHmmLikelihood::{ctor,computeForward_ (every chunk size),setBreakPoints,fireParameterChanged,getLogLikelihood}", "LogsumHmmLikelihood::{ctor,computeForward_,computeBackward_,posterior and per-site queries}", "NumTools::logsum",
             "AutoCorrelationTransitionMatrix::{getPij,Pij,getEquilibriumFrequencies,fireParameterChanged}", "FullHmmTransitionMatrix::{getPij,getEquilibriumFrequencies,fireParameterChanged} (concrete parameter values)"]
BOUNDS = ("2 hidden states, 1-2 sites (low-memory algorithm alone: also 3 sites), every subset of break points, chunk sizes 1..sites+1, all positive transition weights and emissions (reals); one parameter update (an emission entry) after a full round of queries, in both update orders; first and second derivatives w.r.t. an emission parameter acting on one or two sites, in either query order (log-sum algorithm: without break points); "
          "built-in models: 2-3 states, autocorrelation parameters symbolic in (0.01,0.99) with the matrix/equilibrium queries in either order and before/after the update; full model at two concrete parameter sets")
OUTSIDE = ["sequences of 3 or more sites and 3 or more hidden states (measured: the rational functions leave the solver's reach - single configurations of 3 sites take 3 min with over-approximated branches)", "zero transition or emission entries (log-space code takes log 0)",
           "IEEE rounding / underflow for emissions down to 1e-200 (exact real arithmetic)", "stationarity of the full model's equilibrium vector for symbolic parameters (it is row 0 of P^256)"]
ASSUMPTIONS = BASE_ASSUMPTIONS + ["axioms listed in coverage.axioms (exp/log identities on positive arguments)"]
LEVEL_TEXT = ("Bounded symbolic checking: for every configuration within the bound, the likelihood of each algorithm equals the path-enumeration polynomial for all positive transition/emission values, posteriors are non-negative, sum to one and "
              "match enumeration, per-site likelihoods are consistent, answers after an update are those of the new parameter values; the built-in autocorrelation model is row-stochastic with a genuine stationary vector for all parameters.")
LEVEL_NOTE = NOTE
TECHNIQUE = TECH + " (log-space arithmetic kept exact through exp/log product identities)"
E = {"SYM_ABS_NOFORK": "1"}
JOBS = [
    Job("rescaled-lowmemory", "C13.cpp", ["HLO=0", "HHI=0", "LMAX=2"], env=E, budget_s=300, desc="rescaled and low-memory (every chunk size) likelihood = path enumeration; posteriors; per-site likelihoods; answers after a parameter update"),
    Job("lowmemory-3sites", "C13.cpp", ["HLO=0", "HHI=0", "LMAX=3", "LOWMEM_ONLY"], fix="sites=3 break1=0 break2=0", env=E, budget_s=400, tiers=("quick",), desc="low-memory algorithm alone on 3 sites without break points, every chunk size (a partly filled last chunk after a flush needs 3 sites)"),
    Job("lowmemory-3sites-all", "C13.cpp", ["HLO=0", "HHI=0", "LMAX=3", "LOWMEM_ONLY"], fix="sites=3", env=E, budget_s=1800, tiers=("thorough",), desc="low-memory algorithm alone on 3 sites, every break-point subset and chunk size"),
    Job("logsum", "C13.cpp", ["HLO=1", "HHI=1", "LMAX=2", "PARAM_AB"], env=E, budget_s=300, desc="log-sum algorithm: likelihood = path enumeration, posteriors, per-site likelihoods (every ordering of the log-space operands is a path)"),
    Job("derivatives-rescaled", "C13.cpp", ["HLO=3", "HHI=3", "LMAX=2"], fix="algorithm=0", env=E, budget_s=500, replay_tol=1e-7, desc="rescaled algorithm: first and second derivative of the log-likelihood w.r.t. an emission parameter acting on one or two sites = derivatives of the path-enumeration polynomial; with and without a break point; either query order"),
    Job("derivatives-logsum", "C13.cpp", ["HLO=3", "HHI=3", "LMAX=2", "PARAM_AB"], fix="algorithm=1 break1=0", env=E, budget_s=300, replay_tol=1e-7, desc="log-sum algorithm: the same without break points (with a break point the log-space orderings exceed the budget: measured)"),
    Job("transition-models", "C13.cpp", ["HLO=2", "HHI=2", "LMAX=2"], env=E, budget_s=300, desc="built-in transition models: row-stochastic, equilibrium vector sums to one and is stationary, independent of the order of earlier queries"),
]
