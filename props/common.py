BASE_ASSUMPTIONS = ["z3 5.1.0 is sound for the QF_NRA / QF_FP queries it answers (unknown answers are over-approximated as 'both branches feasible')",
                    "clang-14 -O1 LLVM IR (no fast-math, FP contraction off, no vectorisation) is taken as the semantics of the C++ sources",
                    "engine S pass+runtime faithfully redirect double operations (validated on every run of ./check selftest by pushing the repository's own tests through the instrumented library)",
                    "REAL-mode jobs decide exact real arithmetic: IEEE rounding is outside those claims"]
TECH = "symbolic execution of the LLVM-IR-instrumented real code; path conditions and assertions decided by z3"
NOTE = ("Trusted: clang-14 IR as semantics, the SymFP pass + runtime, z3 5.1.0; REAL-mode jobs exclude IEEE rounding; bounds and the parts of the statement "
        "outside the claim are listed in the evidence file (coverage.bounds / coverage.outside_the_claim).")
