from vlib.engine import Job
from props.common import *

EXPLANATION = ("Bounded symbolic checking (engine S, REAL mode) of the generic discretisation, lookup, cumulative-query and restriction code of AbstractDiscreteDistribution and of the compound distributions: the continuous parent is "
               "the library's uniform family or a harness-supplied two-piece (piecewise-linear cdf) parent with any of the three schemes; domain, kink, masses, restriction bounds and looked-up values are solver variables, class count "
               "and the history step (median toggle, class-count change, restriction) are forked. All quantities are rational functions, so the partition clauses are decided exactly on every path.")
FUNCTIONS = ["AbstractDiscreteDistribution::{discretize,discretizeEqualProportions,discretizeEqualIntervals,setNumberOfCategories,setMedian,restrictToConstraint,getValueCategory,getCategoryIndex,getBounds,getCategories,getProbabilities,"
             "getInfCumulativeProbability,getIInfCumulativeProbability,getSupCumulativeProbability,getSSupCumulativeProbability,getProbability (2),getCategory}", "UniformDiscreteDistribution::{ctor,pProb,qProb,Expectation}",
             "SimpleDiscreteDistribution (vector ctor)", "ConstantDistribution", "InvariantMixedDiscreteDistribution::{ctor,updateDistribution}", "MixtureOfDiscreteDistributions::{ctor,updateDistribution}", "IntervalConstraint::{operator&=,operator<=}"]
BOUNDS = ("class counts 1..4 (thorough 1..6); uniform parent on any real interval at least 0.001 wide; two-piece parent with pieces up to 100 wide, first-piece mass in (0.01,0.99), schemes equal-probability / equal-interval / equal-probability-when-possible; "
          "one history step from construction: median toggle (uniform parent), change to any class count in the range, restriction to any sub-interval at least 0.001 wide (two-piece parent: equal-interval scheme or one class, bounds 0.001 away from the kink); "
          "compound distributions: user-specified with 1..4 classes, constant, invariant-mixed over a uniform, mixture of two uniforms on disjoint supports with any weights")
OUTSIDE = ["gamma, beta, gaussian parents (iterative special functions: no symbolic encoding)", "exponential and truncated exponential parents (measured: the value-adjustment thresholds of the discretiser need quantitative bounds on exp that the axiom set does not provide: spurious branches)",
           "class counts above 6, histories of more than one step", "median classes of skewed parents (rescaled medians may leave their interval by design)", "the 1e-12 precision adjustments next to coinciding bounds", "parameter updates (the uniform family has none); namespace handling"]
ASSUMPTIONS = BASE_ASSUMPTIONS + ["the harness-supplied two-piece parent implements a genuine cdf/quantile/partial-expectation triple (monotone, inverse, derivative relation) - written by hand in harness/C09.cpp"]
LEVEL_TEXT = ("Bounded symbolic checking: after construction and after one history step the discretisation has the requested number of classes, non-negative probabilities summing to one, strictly increasing class values inside their intervals, "
              "non-decreasing bounds, class probabilities equal to the parent's mass over the interval, discrete mean equal to the parent's mean for mean-valued classes; value and index lookup return the class whose interval contains the value; "
              "cumulative queries are consistent; compound distributions are normalised - for all real parameters within the bound.")
LEVEL_NOTE = NOTE
TECHNIQUE = TECH
E = {"SYM_ABS_NOFORK": "1", "SYM_DIV0_PRUNE": "1"}
JOBS = [
    Job("partition", "C09.cpp", ["HLO=0", "HHI=0", "NCMAX=4"], thorough_defines=["HLO=0", "HHI=0", "NCMAX=6"], env=E, budget_s=300, thorough_budget_s=3000, desc="uniform and two-piece parents, three schemes, one history step: partition validity, lookups, cumulative queries"),
    Job("compound", "C09.cpp", ["HLO=2", "HHI=2", "NCMAX=4"], env=E, budget_s=200, desc="user-specified, constant, invariant-mixed and mixture distributions: normalisation, cumulative consistency, component weights"),
]
