from vlib.engine import Job
from props.common import *

EXPLANATION = ("Bounded symbolic checking (engine S, REAL mode) of Simplex.cpp: the parameter vector / probability vector are solver variables; sum-to-one and round trips are "
               "rational-function identities decided by normal form, sign conditions (p>=0, theta in (0,1)) by z3 nlsat, on every path of the compiled code.")
FUNCTIONS = ["Simplex::{Simplex(size_t,...),Simplex(vector,...),fireParameterChanged,setFrequencies,getFrequencies,prob,copy ctor,operator=}",
             "OrderedSimplex::{ctors,fireParameterChanged,setFrequencies,getFrequencies}", "AbstractParametrizable::matchParametersValues"]
BOUNDS = ("three parametrisations x dimensions 1..4/6/5 (quick: theta->p / p round trip / ordered) and 1..5/8/7 (thorough; includes 3,4,5,7,8 = powers of two +-1) x allowNull on/off; theta anywhere in the open unit cube; "
          "probability vectors with any positive real entries summing to one")
OUTSIDE = ["dimensions > 8 (5 for the theta->p direction, 7 for the ordered variant): path count grows as 3^dim", "IEEE rounding incl. the 1e-6 sum tolerance and values within 1e-9 of 0/1 (exact real arithmetic here)", "zero probabilities with the zero-allowing constraint (division 0/0 in the code; statement quantifies over positive entries)"]
ASSUMPTIONS = BASE_ASSUMPTIONS
LEVEL_TEXT = ("Bounded symbolic checking: for each (method, dimension, allowNull) every feasible path is explored with all parameters/probabilities symbolic; identities hold for all reals by "
              "polynomial normal form, inequalities by nlsat. Injectivity is shown through the library's own left inverse.")
LEVEL_NOTE = NOTE
TECHNIQUE = TECH
JOBS = [
    Job("theta-to-prob", "C19.cpp", ["HLO=0", "HHI=0", "DIMMAX=4"], thorough_defines=["HLO=0", "HHI=0", "DIMMAX=5"], budget_s=200, thorough_budget_s=3000, desc="probability vector, injectivity via left inverse, copy independence"),
    Job("prob-round-trip", "C19.cpp", ["HLO=1", "HHI=1", "DIMMAX=6"], thorough_defines=["HLO=1", "HHI=1", "DIMMAX=8"], budget_s=200, thorough_budget_s=3000, desc="probabilities -> parameters -> probabilities via constructor and setter"),
    Job("ordered", "C19.cpp", ["HLO=2", "HHI=3", "DIMMAX=5"], thorough_defines=["HLO=2", "HHI=3", "DIMMAX=7"], budget_s=200, thorough_budget_s=3000, desc="ordered variant: non-increasing, sums to one, round trip"),
]
