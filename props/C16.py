from vlib.kengine import KJob
ENGINE = "K"
LEVEL = "other"
KERNELS, HARNESS, TAG = "K_text.cpp", "K_text_h.c", "text"
UNITS = ["Bpp/Text/TextTools.cpp", "Bpp/Io/FileTools.cpp", "Bpp/Exceptions.cpp", "Bpp/Text/KeyvalTools.cpp"]
API = ["k_isDecimalNumber", "k_isDecimalInteger", "k_isEmpty", "k_trim", "k_case", "k_resize", "k_removeBlocks", "k_removeChar", "k_split", "k_count", "k_startsEndsHas", "k_path", "k_toInt", "k_toDouble", "k_singleKeyval"]
LMAX = {"quick": 3, "thorough": 4}
EXPLANATION = ("Bounded model checking of the real string utilities (engine K): TextTools.cpp, FileTools.cpp, KeyvalTools.cpp and Exceptions.cpp are compiled by clang together with extern \"C\" kernels, the LLVM IR (libstdc++'s std::string included) is lowered to C by the "
               "translator in engine_k/ir2c.cpp and CBMC decides, for every byte string of each length and every option character / flag, all generated memory-safety, arithmetic, libstdc++-assertion and unwinding properties plus "
               "'no exception other than the library's type escapes'. Counterexamples are replayed natively (same harness source, recorded values) under ASan/UBSan.")
FUNCTIONS = ["TextTools::{isEmpty,isDecimalNumber (char and string),isDecimalInteger,toInt,toDouble,removeSurroundingWhiteSpaces,removeFirstWhiteSpaces,removeLastWhiteSpaces,removeWhiteSpaces,removeNewLines,removeLastNewLines,toUpper,toLower,"
             "resizeLeft,resizeRight,removeSubstrings (3-argument form),removeChar,split,count,startsWith,endsWith,hasSubstring}", "FileTools::{getFileName,getParent,getExtension}", "KeyvalTools::singleKeyval", "bpp::Exception constructor", "std::string members used by them (inlined libstdc++ code)"]
BOUNDS = "all byte strings of length 0..3 (quick) / 0..4 (thorough; the costlier kernels stay at 0..3), patterns of length 0..2, every option character and flag, chunk sizes 1..3, target sizes 0..4; loop unwinding 10 with unwinding assertions (copy loops 24, or 100 where an exception message is built)"
OUTSIDE = ["strings longer than 4 bytes", "tokenisers, key-value and option parsing, variable substitution, wildcard matching, tables, distribution / interval / formula readers (std::deque, std::map and iostream based: measured without verdict in the design phase)",
           "the numeric value returned by toInt/toDouble (iostream extraction is an opaque stub yielding an arbitrary value)", "split with chunk size 0 (divides by zero; CBMC gives no verdict within the budget)", "passing negative char values to std::isdigit/std::isspace (C-standard-level undefined behaviour no sanitizer confirms)"]
RUNTIME_MODEL = "engine_k/ir2c_rt.c: operator new/delete, __cxa_* exception ABI as a pending flag with a subtype table, __throw_* helpers, __glibcxx_assert_fail as a failing assertion, isspace/toupper/tolower/strlen/memchr/memcmp, backtrace()/backtrace_symbols() returning no frames, std::istringstream as an opaque object whose extraction yields an arbitrary value"
ASSUMPTIONS = ["CBMC 6.11 and its SAT back end are sound for the C program they are given", "clang-14 -O1/-O2 LLVM IR is taken as the semantics of the C++ sources", "the IR-to-C translator and the runtime model are faithful (counterexamples are replayed natively; a spurious one is reported as inconclusive, never as a violation)",
               "allocation never fails (--no-malloc-may-fail)", "comparisons of two null pointers (begin/end of a never-allocated vector) are not treated as errors"]
LEVEL_TEXT = ("Bounded model checking of the compiled real code: for every byte string up to the stated length and every option value no out-of-bounds or invalid-pointer access, no division by zero, no signed overflow, no libstdc++ container assertion, "
              "no exception other than the library's type, and termination within the unwinding bound (unwinding assertions).")
LEVEL_NOTE = "Trusted: clang-14 IR, the ir2c translator + C runtime model (engine_k), CBMC 6.11. Covers the single-string kernels only; container/iostream-based parsers are outside and listed in the evidence."
TECHNIQUE = "bounded model checking (CBMC, SAT) of the real C++ units lowered from LLVM IR to C, all byte strings up to a length bound, unwinding assertions"
W6 = [["WHICH=%d" % i] for i in range(6)]
JOBS = [
    KJob("harness_recognisers", range(0, 4), desc="number recognisers and isEmpty"),
    KJob("harness_recognisers", [4], tiers=("thorough",), timeout_s=900),
    KJob("harness_toInt", range(0, 4), copy_unwind=100, desc="toInt: returns or raises the library's exception"),
    KJob("harness_toDouble", range(0, 4), copy_unwind=100),
    KJob("harness_trim", range(0, 4), variants=W6, desc="white-space / new-line removers"),
    KJob("harness_case", range(0, 4), variants=[["WHICH=0"], ["WHICH=1"]]),
    KJob("harness_resize", range(0, 3), variants=[["WHICH=%d" % w, "NS=%d" % ns] for w in (0, 1) for ns in (0, 1, 3)]),
    KJob("harness_blocks", range(0, 3), copy_unwind=100, timeout_s=400, desc="block removal (raises on an unmatched closing character)"),
    KJob("harness_removeChar", range(0, 4)),
    KJob("harness_split", range(0, 4), variants=[["NS=1"], ["NS=2"], ["NS=3"]], copy_unwind=100),
    KJob("harness_search", range(0, 3), variants=[["WHICH=%d" % w, "NP=%d" % p] for w in (0, 1) for p in (0, 1, 2)], desc="startsWith / endsWith"),
    KJob("harness_search", range(0, 3), variants=[["WHICH=2", "NP=1"], ["WHICH=3", "NP=1"]], timeout_s=400, desc="hasSubstring / count"),
    KJob("harness_keyval", range(0, 4), copy_unwind=120, timeout_s=600, desc="single key=value splitting (raises the library's exception when the separator is missing)"),
    KJob("harness_path", range(0, 4), variants=[["WHICH=0"], ["WHICH=1"], ["WHICH=2"]], timeout_s=400, desc="path helpers"),
]
def run(pid, tier):
    import sys
    from vlib import kengine
    return kengine.check_property(pid, sys.modules[__name__], tier)
