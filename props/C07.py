from vlib.engine import Job
from props.common import *

EXPLANATION = ("Bounded symbolic checking (engine S, REAL mode) of VectorTools.h (double instantiation), NumTools::logsum and StatTools::computeFdr: vector lengths are forked, every element is a solver variable; "
               "each routine is compared with its definition (plain loops in the harness): arithmetic results are rational-function identities, order/extremum/set-like results are decided through the comparisons the "
               "compiled code itself makes (every ordering of the elements, ties included, is a separate path); log-domain reductions use axiomatised exp/log (positivity, monotonicity, exp(log x)=x), "
               "their special values (-inf, +inf) are forked as concrete entries next to arbitrary finite reals; out-of-range accesses abort the path (libstdc++ assertions) and are reported.")
FUNCTIONS = ["VectorTools::{shannon,shannonDiscrete,miDiscrete}", "operator+,-,*,/ (vector-vector, vector-scalar, scalar-vector) and their compound forms", "VectorTools::{sum,prod,cumSum,cumProd,sumProd,scalar,mean (2),center,kroneckerMult,min,max,whichMax,whichMin,whichMaxAll,whichMinAll,range,order,abs,median,"
             "unique,isUnique,cov,var,sd,cor,contains,containsAll,vectorUnion,vectorIntersection,diff,haveSameElements,extend,which,whichAll,rep,append,prepend,seq,logSumExp (2),logMeanExp,sumExp (2),logNorm}",
             "NumTools::logsum", "StatTools::computeFdr"]
BOUNDS = ("vector lengths 0..3 (quick) / 0..4 (thorough; set-like helpers: 0..2 quick, 0..3 thorough), every pair of equal or unequal lengths; all real elements (ties and negative values included); weights > 0; seq: end points in [-2,2], step 1 or 0.5; "
          "log-domain special values: each entry -inf, +inf or an arbitrary finite real")
OUTSIDE = ["lengths above 4", "the integer instantiations of the templates", "the kernel-density (continuous) entropy and mutual information estimators", "IEEE rounding (REAL mode is exact arithmetic): for the vector reductions 'stays finite where the naive formula overflows' is shown "
           "structurally (only differences to the maximum are exponentiated: exp arguments <= 0 on every path), not by floating-point evaluation; the pairwise log-sum is additionally checked over IEEE doubles (job logsum-ieee)", "breaks/nclassScott/paste/print helpers"]
ASSUMPTIONS = BASE_ASSUMPTIONS
LEVEL_TEXT = ("Bounded symbolic checking: for every length configuration within the bound every feasible path (ordering of the elements) of the compiled template code is explored with symbolic elements and the result is "
              "shown equal to the definition for all reals; size mismatches / empty inputs must raise the documented exception and never index out of range.")
LEVEL_NOTE = NOTE
TECHNIQUE = TECH
JOBS = [
    Job("elementwise", "C07.cpp", ["HLO=0", "HHI=0", "LMAX=3"], thorough_defines=["HLO=0", "HHI=0", "LMAX=4"], budget_s=200, thorough_budget_s=1000, desc="element-wise arithmetic, all operator forms, unequal lengths"),
    Job("sums-extrema-stats", "C07.cpp", ["HLO=1", "HHI=3", "LMAX=3"], thorough_defines=["HLO=1", "HHI=3", "LMAX=4"], budget_s=300, thorough_budget_s=3000, desc="sums, products, cumulative forms, means, extrema and positions, order, median, unique, covariance, variance, correlation"),
    Job("order-median-n4", "C07.cpp", ["HLO=2", "HHI=2", "LMAX=4"], fix="n=4", tiers=("quick",), budget_s=200, desc="extrema, order, median (even length >= 4), unique on four elements, every ordering and tie pattern"),
    Job("set-like", "C07.cpp", ["HLO=4", "HHI=4", "LMAX=2"], thorough_defines=["HLO=4", "HHI=4", "LMAX=3"], budget_s=300, thorough_budget_s=3000, desc="contains/containsAll/union/intersection/difference/same-elements/extend/which/rep/append"),
    Job("seq-fdr", "C07.cpp", ["HLO=5", "HHI=5", "LMAX=3"], budget_s=200, desc="sequence generation"),
    Job("fdr", "C07.cpp", ["HLO=8", "HHI=8", "LMAX=3"], thorough_defines=["HLO=8", "HHI=8", "LMAX=4"], budget_s=200, thorough_budget_s=1000, desc="false-discovery-rate adjustment r = p.n/rank"),
    Job("weighted-statistics", "C07.cpp", ["HLO=10", "HHI=10", "LMAX=3"], budget_s=400, desc="weighted mean, covariance, variance, standard deviation and correlation for every combination of the unbiased / normalise-weights flags, lengths 2..3, any positive weights"),
    Job("entropy-mutual-information", "C07.cpp", ["HLO=9", "HHI=9", "LMAX=3"], thorough_defines=["HLO=9", "HHI=9", "LMAX=4"], env={"SYM_LOG_ATOMS": "1"}, budget_s=300, thorough_budget_s=2000, desc="shannon (frequencies, any base), shannonDiscrete and miDiscrete (samples of length 1..3 (4), every equality pattern): definitions through value counts, MI = H(X)+H(Y)-H(X,Y), symmetry, MI(X,X)=H(X), length mismatch refused; logarithms of count ratios are exact atoms and both sides are compared as products of integer powers"),
    Job("log-domain", "C07.cpp", ["HLO=6", "HHI=6", "LMAX=3"], thorough_defines=["HLO=6", "HHI=6", "LMAX=4"], budget_s=300, thorough_budget_s=3000, spurious_possible=True, desc="log-sum-exp family: bounds, exp-view equals the sum, shift-equivariance, weighted forms, pairwise log-sum (axiomatised exp/log)"),
    Job("logsum-ieee", "C07.cpp", ["HLO=11", "HHI=11", "LMAX=2"], mode="fp", timeout_ms=120000, budget_s=600, background=True, procs=8, desc="FP mode (z3 Float64; exp/log/log1p constrained by their IEEE special values, sign, monotonicity, overflow/underflow thresholds): NumTools::logsum over every ordered pair of non-NaN doubles of magnitude <= 1e300 or infinite: never NaN, not below either term, finite when both terms are, log-zero only for two log-zeros (the naive log(exp x + exp y) overflows/underflows there)"),
    Job("log-special-values", "C07.cpp", ["HLO=7", "HHI=7", "LMAX=3"], thorough_defines=["HLO=7", "HHI=7", "LMAX=4"], budget_s=300, thorough_budget_s=3000, desc="log-domain reductions with -inf/+inf entries: never NaN, log-zeros give log-zero, finite terms give a finite result"),
]
