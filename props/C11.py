from vlib.engine import Job
from props.common import *

EXPLANATION = ("Bounded symbolic checking (engine S, REAL mode) of TransformedParameter.h and ReparametrizationFunctionWrapper.{h,cpp}: bounds, scale, original value and the transformed coordinate are solver variables; "
               "exp/log, tanh/atanh, tan/atan, cosh are fresh values constrained by instantiated axioms (monotone, inverse pairs, range; pi bracketed by 18-digit rationals); the wrapped function, its gradient and Hessian "
               "are uninterpreted functions, so the claims hold for every function. The derivatives the code returns are compared with the derivative of the recorded arithmetic of getOriginalValue (forward differentiation "
               "of the term DAG inside the runtime, d exp=exp, d tanh=1-tanh^2, d atan=1/(1+x^2)).")
FUNCTIONS = ["RTransformedParameter::{ctor,setOriginalValue,getOriginalValue,getFirstOrderDerivative,getSecondOrderDerivative}", "IntervalTransformedParameter::{same five}, both hyper (tanh) and tangent forms", "PlaceboTransformedParameter",
             "ReparametrizationFunctionWrapper::{ctor/init_ (8 bound shapes + unconstrained),setParameters,f,getValue,fireParameterChanged}", "ReparametrizationDerivableFirstOrderWrapper::getFirstOrderDerivative",
             "ReparametrizationDerivableSecondOrderWrapper::getSecondOrderDerivative (1 and 2 variables)", "NumConstants::PI"]
BOUNDS = ("all real bounds (finite intervals at least 1e-6 wide), interval-transform scale in [0.1,10], unit scale for the half-line transforms, original values anywhere inside the constraint (wrapper: farther than 2e-12 from an open bound, "
          "closed bounds included; derivative jobs: farther than 1e-9 from any bound), transformed coordinates in [-30,30]; wrapped functions with 1-2 parameters in every combination of the nine shapes "
          "(quick: all shapes for one parameter; chain rule also for two parameters, the first in every shape and the second closed-interval constrained; thorough: all 81 combinations for every claim)")
OUTSIDE = ["IEEE rounding: 'to rounding' claims are proved as exact identities over the reals (e.g. tanh saturating to 1.0 for large coordinates is a floating-point effect outside this claim)", "agreement of the derivative formulas with finite differences (the formulas are compared with the exact derivative instead)",
           "functions with 3-5 parameters", "transformed coordinates equal to the parameter's current value or to 0 in the derivative jobs (Parameter::setValue ignores such a request, so the coordinate does not enter the arithmetic)",
           "values within 2e-12 of an open bound (the wrapper shrinks open bounds by 1e-12 and refuses such values)"]
ASSUMPTIONS = BASE_ASSUMPTIONS + ["axioms listed in coverage.axioms are true statements about the real functions exp, log, tanh, atanh, tan, atan, cosh"]
LEVEL_TEXT = ("Bounded symbolic checking: round trip, strict monotonicity, range, wrapper evaluation at the back-transformed point, feasibility and chain rule are rational-function/axiom-level identities or sign conditions "
              "decided by z3 on every path of the compiled code, for all real bounds, scales, values and every wrapped function.")
LEVEL_NOTE = NOTE
TECHNIQUE = TECH + " (QF_NRA with instantiated axioms for the transcendental functions)"
JOBS = [
    Job("transforms", "C11.cpp", ["HLO=0", "HHI=1"], budget_s=200, replay_tol=1e-5, spurious_possible=True, desc="round trip, strict monotonicity, range, pass-through; first/second derivative of each map vs the derivative of its arithmetic"),
    Job("wrapper-1", "C11.cpp", ["HLO=2", "HHI=3", "NPAR=1"], fix="nparams=1", budget_s=300, replay_tol=1e-5, spurious_possible=True, desc="one-parameter functions, all nine shapes: values kept at wrapping, evaluation at the back-transformed point, feasibility, chain rule"),
    Job("wrapper-2", "C11.cpp", ["HLO=3", "HHI=3", "NPAR=2"], fix="nparams=2 q.shape=1", budget_s=400, replay_tol=1e-5, spurious_possible=True, desc="two-parameter functions, first parameter in every shape, second closed-interval constrained: chain rule incl. the cross derivative"),
    Job("wrapper-2-q4", "C11.cpp", ["HLO=2", "HHI=3", "NPAR=2"], fix="nparams=2 q.shape=4", budget_s=1500, replay_tol=1e-5, tiers=("thorough",), spurious_possible=True, desc="two-parameter functions, first parameter in every shape, second parameter in shape 4 (all 81 combinations measured: 47 min on 16 cores, kept out of the registered tier)"),
    Job("wrapper-2-q8", "C11.cpp", ["HLO=2", "HHI=3", "NPAR=2"], fix="nparams=2 q.shape=8", budget_s=1500, replay_tol=1e-5, tiers=("thorough",), spurious_possible=True, desc="the same with the second parameter in shape 8"),
]
