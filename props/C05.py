from vlib.engine import Job
from props.common import *

EXPLANATION = ("Bounded symbolic checking (engine S, REAL mode) of LUDecomposition.h and MatrixTools::{inv,det,transpose,mult}: all matrix entries and right-hand sides are solver variables; "
               "every pivoting order is a separate explored path; P.A=L.U, A.X=B, A.inv(A)=I and determinant identities are rational-function identities decided by normal form, "
               "pivot comparisons and the 1e-6 singularity threshold by nlsat.")
FUNCTIONS = ["LUDecomposition<double>::{ctor,getL,getU,getPivot,det,solve(Matrix,Matrix)}", "MatrixTools::{inv,det,transpose,mult,getId}", "RowMatrix/ColMatrix/LinearMatrix accessors and resize"]
BOUNDS = ("n=1,2: all entries symbolic, all three storage classes for A, B and X, 1..2 right-hand-side columns; n=3: all nine entries symbolic (factorisation, determinant; solve+inverse with one right-hand side; "
          "quick: one storage combination, thorough: all); det(AB)=det(A)det(B) for n<=2 fully symbolic; refusals: right-hand-side heights 0..4, non-square inputs")
OUTSIDE = ["n >= 4", "the floating-point backward-error bound (REAL mode proves the exact equations; rounding is outside)", "det(AB) for n=3 (measured: nlsat undecided within 300 s)",
           "the std::vector overload of solve (does not compile: uses dim1()/clean(), never instantiated)"]
ASSUMPTIONS = BASE_ASSUMPTIONS
LEVEL_TEXT = ("Bounded symbolic checking: for n<=3 every pivot order of the real compiled factorisation is explored with all entries symbolic; the equations hold for all real matrices on each path, "
              "singularity reporting is shown equivalent to 'smallest pivot < 1e-6'.")
LEVEL_NOTE = NOTE
TECHNIQUE = TECH
JOBS = [
    Job("lu-n12", "C05.cpp", ["HLO=0", "HHI=3", "NMIN=1", "NMAX=2"], budget_s=200, desc="n=1,2 fully symbolic: factorisation, det, solve, inverse, refusals, det(AB); all storage classes"),
    Job("lu3-factor", "C05.cpp", ["HLO=0", "HHI=0", "NMIN=3", "NMAX=3", "NSYM=9"], fix="A.storage=0", budget_s=300, tiers=("quick",), desc="n=3, nine symbolic entries: P.A=L.U, shapes, permutation, sign, det = cofactor expansion, det(A^T)"),
    Job("lu3-solve", "C05.cpp", ["HLO=1", "HHI=1", "NMIN=3", "NMAX=3", "NSYM=9"], fix="A.storage=0 B.storage=1 X.storage=2 nrhs=1", budget_s=300, tiers=("quick",), desc="n=3, nine symbolic entries + symbolic right-hand side: A.X=B, A.inv(A)=I, indicator, threshold"),
    Job("lu3-factor-all", "C05.cpp", ["HLO=0", "HHI=0", "NMIN=3", "NMAX=3", "NSYM=9"], budget_s=1500, tiers=("thorough",), desc="n=3 factorisation in every storage class"),
    Job("lu3-solve-all", "C05.cpp", ["HLO=1", "HHI=1", "NMIN=3", "NMAX=3", "NSYM=9"], budget_s=3600, tiers=("thorough",), desc="n=3 solve/inverse, every storage combination, 1..2 right-hand sides"),
    Job("lu3-refusals", "C05.cpp", ["HLO=2", "HHI=2", "NMIN=3", "NMAX=3", "NSYM=3"], budget_s=600, tiers=("thorough",), desc="n=3 refusals"),
]
