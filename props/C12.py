from vlib.engine import Job
from props.common import *

EXPLANATION = ("Bounded symbolic checking (engine S, REAL mode) of the two-, three- and five-point numerical-derivative wrappers: the wrapped function of two variables is (a) an uninterpreted function - transparency and delegation then hold "
               "for every function - or (b) a polynomial whose coefficients are solver variables, of exactly the degree the scheme differentiates exactly (capped at 4 in the quick tier, 5 in the thorough tier); evaluation point and constraint bounds are solver variables, so every "
               "pattern of accepted/rejected probes is a separate explored path; derivative identities are rational-function identities decided by normal form.")
FUNCTIONS = ["AbstractNumericalDerivative::{setParameters,setAllParametersValues,setParameterValue,setParametersValues,matchParametersValues,f,getFirstOrderDerivative,getSecondOrderDerivative (1,2 variables),setParametersToDerivate,setInterval}",
             "TwoPointsNumericalDerivative::updateDerivatives", "ThreePointsNumericalDerivative::updateDerivatives (incl. cross derivatives)", "FivePointsNumericalDerivative::updateDerivatives", "FunctionWrapper forwarding", "ParameterList::{createSubList,setParameters...}"]
BOUNDS = ("functions of two variables (cross-derivative job: a cubic in three variables, three variable orders); selected variables {x}, {y}, {x,y}, {y,x}; step 2^-7, 2^-14 or 2^-20 (forked); evaluation points and bounds real in [-10,10] (closed-interval constraints at least 2 wide, on either or both variables); "
          "polynomial coefficients in [-10,10] with |f| < 1e6 at every probe; all six update entry points; cross derivatives on/off (three-point)")
OUTSIDE = ["4 variables; 3 variables except for the cross-derivative job", "convergence order on polynomials above the exactness degree", "symbolic step sizes (measured: probe positions become products of unknowns and the queries leave nlsat's reach)",
           "cross derivatives at a constraint limit (documented to raise)", "function values >= 1.7e23 (treated as undefined by the schemes)", "IEEE rounding (exact real arithmetic)"]
ASSUMPTIONS = BASE_ASSUMPTIONS + ["|a| is introduced as t>=0 and (t=a or t=-a) instead of a path split (axiom listed in the evidence)"]
LEVEL_TEXT = ("Bounded symbolic checking: transparency (function left at the requested point, value reported there) for every function and every pattern of rejected probes; exactness of first, second and cross derivatives on "
              "polynomials with symbolic coefficients, in the interior and with one-sided probes next to a bound; delegation for variables that were not selected.")
LEVEL_NOTE = NOTE
TECHNIQUE = TECH
E = {"SYM_ABS_NOFORK": "1"}
JOBS = [
    Job("transparency", "C12.cpp", ["HLO=0", "HHI=0"], env=E, budget_s=400, spurious_possible=True, desc="every entry point, every selection, constraints on either variable, cross derivatives on/off: function left at the requested point and value reported there"),
    Job("exactness", "C12.cpp", ["HLO=1", "HHI=1", "DEGMAX=4"], thorough_defines=["HLO=1", "HHI=1", "DEGMAX=5"], env=E, budget_s=300, thorough_budget_s=3000, desc="interior: first/second/cross derivatives equal the analytic ones on polynomials of the scheme's exactness degree"),
    Job("one-sided", "C12.cpp", ["HLO=2", "HHI=2"], env=E, budget_s=300, desc="on / next to a bound: no exception, one-sided first (linear) and second (quadratic) derivatives exact, function left at the requested point"),
    Job("cross-3-variables", "C12.cpp", ["HLO=4", "HHI=4"], fix="scheme=1", env=E, budget_s=400, desc="three-point scheme on a cubic in three variables, three orders of the selected variables: every cross derivative exact, function left at the requested point"),
    Job("partial-update", "C12.cpp", ["HLO=5", "HHI=5"], env=E, budget_s=200, desc="a full update, then one variable changed through setParameterValue / matchParametersValues / setParametersValues: function left at the current point, value and the updated variable's derivative are those of the current point; the other selected variable's derivative is stale (known finding)"),
    Job("delegation", "C12.cpp", ["HLO=6", "HHI=6"], env=E, budget_s=300, spurious_possible=True, desc="derivatives of variables that were not selected come from the wrapped function (uninterpreted f, df, d2f): after a selection that may replace an earlier one containing the variable (with or without an update in between), a full update, and optionally a further update of the unselected variable alone through setParameterValue / matchParametersValues / setParametersValues; the wrapped function's derivative computations are switched on again after every update and no delegated derivative is requested while they are off"),
]
