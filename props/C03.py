from vlib.engine import Job
from props.common import *

EXPLANATION = ("Bounded symbolic checking (engine S, REAL mode) of AbstractParameterAliasable.cpp/.h and the alias listener: a subclass object with 3-4 parameters is driven through forked histories of "
               "alias / unalias / set-by-name / bulk set / match / copy-construct / clone / assign / setNamespace; values and constraint bounds are solver variables; after every call the real object is compared with a "
               "small reference model (alias forest, independent set, namespace), aliased parameters must equal their (changed) source, and objects left behind by a copy must never move. "
               "Bulk aliasing from a name map is run for every map over the names under a CPU-time watchdog (termination).")
FUNCTIONS = ["AbstractParameterAliasable::{aliasParameters(p1,p2),aliasParameters(map),unaliasParameters,copy ctor,operator=,setNamespace,hasIndependentParameter,getIndependentParameters,getFrom}",
             "AliasParameterListener::{parameterValueChanged,rename,clone}", "AbstractParametrizable::{setParameterValue,setParametersValues,matchParametersValues,setNamespace}", "Parameter::{setValue,setConstraint,listeners}", "IntervalConstraint::operator&"]
BOUNDS = ("objects with 3 parameters (thorough also 4), each unconstrained or closed-interval constrained with symbolic bounds, initial namespace empty or 'N.'; histories: every sequence of 2 calls, every sequence of 3 calls that "
          "starts with two alias requests (quick: third parameter unconstrained) / every sequence of 3 calls with the third parameter unconstrained (thorough), each followed by a closing probe that moves every alias-group root; updates address independent parameters with values inside "
          "every constraint of their alias group and different from the current ones; one link between two parameters with any open/closed interval constraints (symbolic bounds) probed with values on either side of every bound; every name map over the names (each name unmapped, mapped to any name incl. itself, or to an unknown name), CPU watchdog 5 s per path")
OUTSIDE = ["objects with 5-6 parameters, histories longer than 3 calls", "updates that address an aliased (non-independent) parameter directly, or give an alias group a value outside one of its constraints",
           "alias requests whose current values lie outside the constraint the two parameters will share", "open or half-open intervals in the history jobs (the single-link job covers every combination of open/closed ends; interval semantics: C01)"]
ASSUMPTIONS = BASE_ASSUMPTIONS + ["termination is claimed per explored path: a path that runs longer than 5 CPU-seconds inside the bulk-alias call is reported as a violation"]
LEVEL_TEXT = ("Bounded symbolic checking: every history within the bound is executed on the compiled code with symbolic values; alias tracking, independent set, refusal of double links and cycles, copy/assign/namespace "
              "preservation and termination of the map form are asserted on each path for all reals.")
LEVEL_NOTE = NOTE
TECHNIQUE = TECH
JOBS = [
    Job("histories-2", "C03.cpp", ["HLO=0", "HHI=0", "NPAR=3", "NSTEPS=2", "CKMAX=1"], thorough_defines=["HLO=0", "HHI=0", "NPAR=4", "NSTEPS=2", "CKMAX=1"], budget_s=300, thorough_budget_s=3000, desc="every history of two calls + closing probe"),
    Job("histories-3", "C03.cpp", ["HLO=0", "HHI=0", "NPAR=3", "NSTEPS=3", "CKMAX=1", "FIRST_ALIAS=2", "UNCONSTRAINED_LAST"], thorough_defines=["HLO=0", "HHI=0", "NPAR=3", "NSTEPS=3", "CKMAX=1", "FIRST_ALIAS=2"], budget_s=500, thorough_budget_s=2500, desc="histories of three calls whose first two are alias requests, so chains, forks, double links and cycles are followed by every third call (quick: the third parameter carries no constraint; thorough: every parameter constrained or not - measured 590 s)"),
    Job("histories-3-any-order", "C03.cpp", ["HLO=0", "HHI=0", "NPAR=3", "NSTEPS=3", "CKMAX=1", "UNCONSTRAINED_LAST"], tiers=("thorough",), budget_s=3400, desc="every history of three calls (third parameter unconstrained)"),
    Job("alias-constraints", "C03.cpp", ["HLO=2", "HHI=2", "NPAR=3", "CKMAX=1"], thorough_defines=["HLO=2", "HHI=2", "NPAR=3", "CKMAX=1", "PAIR_DISTINCT_VALUES"], budget_s=200, thorough_budget_s=1500, desc="one link between two parameters, each unconstrained or constrained by an interval with symbolic bounds and every combination of open/closed ends (or both holding the very same constraint object): afterwards the pair accepts exactly the values both original constraints accept (decided for a symbolic test point), an update of the source is refused iff one of the original constraints rejects it and otherwise reaches both, a refused update changes nothing (thorough: distinct starting values; after un-linking each parameter still refuses what its own constraint refused)"),
    Job("alias-map", "C03.cpp", ["HLO=1", "HHI=1", "NPAR=3", "CKMAX=1"], thorough_defines=["HLO=1", "HHI=1", "NPAR=4", "CKMAX=1"], budget_s=300, thorough_budget_s=3000, desc="bulk aliasing from every name map: terminates, performs the links or raises"),
]
