from vlib.engine import Job
from props.common import *

EXPLANATION = ("Bounded symbolic checking (engine S, REAL mode) of the one-dimensional optimisers and bracketing routines with the objective, its first and second derivative as uninterpreted functions R->R: every evaluation is a fresh "
               "Ackermannised value, every comparison the compiled code makes between objective values is a path split, so the claims hold for every objective; an evaluation budget inside the objective object bounds the exploration. "
               "The objective object asserts on each evaluation that its argument satisfies its (symbolic) constraint.")
FUNCTIONS = ["OneDimensionOptimizationTools::{inwardBracketMinimum,bracketMinimum}", "NewtonOneDimension::{doInit,doStep}", "BrentOneDimension::{doInit (inward bracketing),doStep,optimize}", "NewtonBacktrackOneDimension::{doInit,doStep}",
             "DownhillSimplexMethod::{doInit,doStep,tryExtrapolation,getPSum,optimize,DSMStopCondition}", "AbstractOptimizer::{init,step,optimize,autoParameter}", "AutoParameter::setValue"]
BOUNDS = ("inward bracketing: any real interval, 1-4 mesh intervals; outward bracketing: from [0,1] and [-3,-2], runs needing at most 5 objective evaluations; Newton 1-D: one step (up to 10 halvings) from any real starting point, "
          "unconstrained or with any closed-interval constraint under the automatic-constraint policy; Brent with inward bracketing from [0,1], any starting value in (0,1], 1 step (quick) / 2 steps (thorough), unconstrained or with any "
          "constraint containing [0,1] under the automatic policy; backtracking line search: up to 3 steps, any negative slope; objective values in (-1e6,1e6); downhill simplex: two dimensions, two concrete starting points, evaluation limits 2..5 (thorough 7); quadratics a(x-m)^2+c with a in (0.01,100), any m (Brent: m in (0.02,0.98), interval [0,1], start 0.5, tolerances 0.05 and 0.2, at most 25 steps)")
OUTSIDE = ["multi-dimensional optimisers other than the downhill simplex (BFGS, conjugate gradient, Powell, coordinate-wise, meta-optimiser: their line searches make the probed points rational functions of objective values; a coordinate-wise sweep was measured: no path finished within 12 evaluations)", "convergence on quadratics for the multi-dimensional optimisers and golden section", "golden-section whole runs (outward bracketing followed by steps with objective-dependent abscissae: measured out of reach)",
           "longer runs than the stated step/evaluation budgets", "paths on which the compiled code divides by an exactly zero real (IEEE infinities are not modelled; counted in the evidence)"]
ASSUMPTIONS = BASE_ASSUMPTIONS + ["|a| is introduced as t>=0 and (t=a or t=-a) instead of a path split", "paths dividing by an exactly zero real are dropped and counted (coverage.paths_dropped_at_exact_division_by_zero)"]
LEVEL_TEXT = ("Bounded symbolic checking with an uninterpreted objective: bracketing triples are ordered with the lowest value in the middle and carry f at their abscissae; a Newton step and Brent runs never end worse than they start, "
              "return the objective's value at the reported point, leave the objective there, and under the automatic-constraint policy never evaluate outside the constraint.")
LEVEL_NOTE = NOTE
TECHNIQUE = TECH + " (objective functions as uninterpreted symbols)"
E = {"SYM_ABS_NOFORK": "1", "SYM_DIV0_PRUNE": "1"}
JOBS = [
    Job("bracketing", "C10.cpp", ["HLO=0", "HHI=1", "EVALMAX=5"], env=E, budget_s=300, spurious_possible=True, desc="inward and outward bracketing: ordered triple, middle lowest, recorded values are f at the abscissae"),
    Job("bracketing-generic", "C10.cpp", ["HLO=1", "HHI=1", "EVALMAX=5", "SEPARATE"], env=E, budget_s=300, spurious_possible=True, desc="outward bracketing again with objective values in generic position (pairwise more than 1e-3 apart): counterexamples of this variant survive the rounding of the native replay"),
    Job("newton-step", "C10.cpp", ["HLO=2", "HHI=2"], env=E, budget_s=300, spurious_possible=True, desc="one Newton step incl. the step-halving correction: descent, value = f(reported), objective left there, feasibility under the automatic policy"),
    Job("brent-2steps", "C10.cpp", ["HLO=3", "HHI=3", "EVALMAX=5"], fix="maxSteps=2", tiers=("thorough",), env=E, budget_s=3000, spurious_possible=True, desc="Brent, two steps"),
    Job("brent", "C10.cpp", ["HLO=3", "HHI=3", "EVALMAX=5"], fix="maxSteps=1", env=E, budget_s=400, spurious_possible=True, desc="Brent with inward bracketing: descent w.r.t. the starting value, value = f(reported), objective left there, never evaluated outside the constraint"),
    Job("downhill-simplex", "C10.cpp", ["HLO=6", "HHI=6", "DSMAX=5"], thorough_defines=["HLO=6", "HHI=6", "DSMAX=7"], env=E, budget_s=400, thorough_budget_s=3000, spurious_possible=True, desc="downhill simplex in two dimensions on an uninterpreted objective R^2->R, whole runs with an evaluation limit of 2..5 (7) from two concrete starting points: descent, value = f(reported), objective left there, evaluation budget"),
    Job("quadratic-convergence", "C10.cpp", ["HLO=7", "HHI=7"], env=E, budget_s=400, replay_tol=1e-9, desc="a(x-m)^2+c with symbolic a>0, m, c: Newton 1-D from any start ends exactly on the minimiser; Brent (inward bracketing of [0,1], tolerance 0.05 / 0.2) converges and stops within its tolerance of the minimiser"),
    Job("backtracking", "C10.cpp", ["HLO=9", "HHI=9"], env=E, budget_s=200, spurious_possible=True, desc="backtracking line search: value = f(reported step length), step in [0,1], stops at or below the starting value"),
]
