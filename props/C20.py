from vlib.engine import Job
from props.common import *

EXPLANATION = ("Bounded symbolic checking (engine S) of the real Range.h templates instantiated for double: range end points, query points and shift amounts are solver variables; "
               "MultiRange operations are checked as inductive steps from an arbitrary canonical state by point-membership semantics with a symbolic point.")
FUNCTIONS = ["Range<double>::{ctor,overlap,contains,isContiguous,expandWith,sliceWith,isEmpty,length,operator+,-,+=,==,!=,<}",
             "MultiRange<double>::{addRange,restrictTo,filterWithin,clear,copy ctor,operator=,getRange,getBounds,isEmpty,size,clean_}",
             "RangeSet<double>::{addRange,restrictTo,filterWithin,clear,copy ctor,operator=}"]
BOUNDS = ("all real end points; MultiRange: arbitrary canonical pre-state of 0..3 ranges (thorough 0..4), 1 step (quick) and chains of 2 steps (thorough, pre-state 0..2) out of {add,restrict,filter,clear,copy}; "
          "RangeSet: 0..3 added ranges then one of restrict/filter/copy; Range predicates: two arbitrary ranges incl. reversed arguments")
OUTSIDE = ["int and unsigned instantiations at collection level (same template code, not seen by the solver)", "totalLength() (returns size_t: truncation of a double sum)",
           "sequences longer than 2 operations as chains (covered inductively step by step)", "overlap/contains predicates with an empty operand (interval arithmetic leaves them unspecified)"]
ASSUMPTIONS = BASE_ASSUMPTIONS
LEVEL_TEXT = ("Bounded symbolic checking: each operation is verified as an inductive step from an arbitrary canonical state (any real end points) so histories of any length are covered for "
              "canonical form and point-membership semantics, for up to 3-4 stored ranges.")
LEVEL_NOTE = NOTE
TECHNIQUE = TECH
JOBS = [
    Job("range-primitives", "C20.cpp", ["HLO=0", "HHI=0"], budget_s=120, desc="Range<double> predicates, expansion, slicing, shifting vs interval arithmetic"),
    Job("multirange-step", "C20.cpp", ["HLO=1", "HHI=1", "KMAX=3", "NSTEPS=1"], thorough_defines=["HLO=1", "HHI=1", "KMAX=4", "NSTEPS=1"], budget_s=200, thorough_budget_s=1800, desc="one add/restrict/filter/clear/copy from an arbitrary canonical state"),
    Job("multirange-chain", "C20.cpp", ["HLO=1", "HHI=1", "KMAX=1", "NSTEPS=2"], thorough_defines=["HLO=1", "HHI=1", "KMAX=2", "NSTEPS=2"], budget_s=200, thorough_budget_s=1800, desc="chains of two operations"),
    Job("rangeset", "C20.cpp", ["HLO=2", "HHI=2", "KMAX=3"], budget_s=120, desc="RangeSet keeps each non-empty range individually"),
]
