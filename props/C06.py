from vlib.engine import Job
from props.common import *

EXPLANATION = ("Bounded symbolic checking (engine S, REAL mode, sqrt axiomatised by s>=0, s^2=x) of EigenValue.h on the inputs whose iteration provably exits after a bounded number of sweeps for every value: 1x1, 2x2 symmetric (coupled or diagonal), "
               "3x3 symmetric made of a coupled 2x2 block and an isolated diagonal entry in each of the three positions (the implicit QL iteration splits), 2x2 triangular input with distinct diagonal, and the defective 2x2 Jordan block (non-symmetric path: orthes + hqr2; for the defective input A.V = V.D is claimed within 16 eps |A||V|, the property's tolerance, because the kernel divides by eps.|A| in place of 0). "
               "Entries are solver variables; A.V = V.D, consistency of the eigenvalue lists with D, trace and determinant, ascending order and orthonormality (symmetric case) are decided exactly on every path. "
               "This is a partial claim: for general matrices the QL / QR iterations have no bound on their trip count over symbolic data.")
FUNCTIONS = ["EigenValue<double>::{ctor (symmetry dispatch),tred2,tql2,orthes,hqr2,cdiv,getV,getD,getRealEigenValues,getImagEigenValues,isSymmetric}", "MatrixTools::{pow(A,double),exp} (1x1, diagonal, upper-triangular 2x2)", "RowMatrix/ColMatrix/LinearMatrix accessors"]
BOUNDS = ("entries real in [-100,100], non-zero couplings at least 0.001 in magnitude (away from the kernels' relative-epsilon 'negligible' regime); shapes: 1x1; 2x2 symmetric; 2x2 diagonal; 2x2 upper/lower triangular with distinct diagonal; 2x2 Jordan block; "
          "3x3 symmetric = coupled 2x2 block + isolated diagonal entry at position 0, 1 or 2 (one storage class: with the other two a solver time-out under load produced an unconfirmed branch, so they are outside); all three storage classes for the 1x1 and 2x2 inputs; 3x3 non-symmetric with rational spectrum: fully symbolic upper-triangular (distinct diagonal), and [[a,0,c],[d,e,f],[0,0,g]] with (a,d,e) one of (4,4,1), (-1,3,0.5) and c, f, g symbolic")
OUTSIDE = ["general dense, companion, rotation-block (complex spectrum), repeated-eigenvalue, defective and graded matrices, and every size above 3: the iterations do not terminate symbolically", "the backward-error bound in floating point (exact equations are proved instead, away from the epsilon regime)",
           "matrix exponential and real matrix power for symmetric and lower-triangular input (their eigenvectors carry square roots; measured: no verdict within 400 s) and non-integer powers", "DualityDiagram"]
ASSUMPTIONS = BASE_ASSUMPTIONS + ["sqrt axioms: s >= 0, s*s = x, strictly increasing", "|a| is introduced as t>=0 and (t=a or t=-a) instead of a path split"]
LEVEL_TEXT = ("Bounded symbolic checking on structured small inputs only: every path of the compiled tridiagonalisation / QL (and Hessenberg / QR) code that these inputs reach is explored with symbolic entries, and A.V = V.D, spectrum consistency, "
              "trace/determinant, ordering and orthonormality are proved for all real entries in the bound. General matrices are outside; the MANIFEST level note says so.")
LEVEL_NOTE = NOTE + " Partial claim (1x1, 2x2 and block-structured 3x3 inputs)."
TECHNIQUE = TECH
E = {"SYM_ABS_NOFORK": "1", "SYM_DIV0_PRUNE": "1"}
JOBS = [
    Job("small", "C06.cpp", ["HLO=0", "HHI=3"], env=E, budget_s=300, desc="1x1, 2x2 symmetric, 2x2 diagonal, 2x2 triangular; all storage classes"),
    Job("matrix-functions", "C06.cpp", ["HLO=0", "HHI=3", "MATFUN"], env=E, budget_s=200, desc="MatrixTools::pow(A, p) for p = -2,-1,1,2,3 against repeated products / inverses and MatrixTools::exp against the closed-form sum of the power series, for 1x1, diagonal and upper-triangular 2x2 input with distinct eigenvalues; exp(A).V = V.exp(D), exp(A) commutes with A; a reported singularity of V is accepted"),
    Job("defective", "C06.cpp", ["HLO=5", "HHI=5"], env=E, budget_s=200, desc="2x2 Jordan block (repeated eigenvalue, one eigenvector): |A.V - V.D| <= 16 eps |A| |V| entrywise, spectrum, trace, determinant"),
    Job("hessenberg3", "C06.cpp", ["HLO=6", "HHI=6"], env=E, budget_s=300, desc="3x3 non-symmetric input with a rational spectrum, all storage classes: fully symbolic upper-triangular matrices, and block-triangular matrices [[a,0,c],[d,e,f],[0,0,g]] (c zero or not) whose Hessenberg reduction meets an already reduced column; there the leading 2x2 block is one of two concrete blocks with a rational rotation, last column and isolated eigenvalue symbolic: A.V = V.D, spectrum lists, trace"),
    Job("block3", "C06.cpp", ["HLO=4", "HHI=4"], fix="A.storage=0", env=E, budget_s=300, desc="3x3 symmetric: coupled 2x2 block + isolated entry in each position"),
]
