// C model of the C++/C runtime entry points left external in the translated module (prototype).
#include "ir2c_rt.h"
#include <string.h>
#include <stdlib.h>
#include <assert.h>
char __ir2c_dummy_vt[128];
int __exc_pending; char* __exc_obj; char* __exc_type;
int __verif_throw_seen;
char* __ir2c_memcpy(char* d, char* s, uint64_t n) { for (uint64_t i = 0; i < n; i++) d[i] = s[i]; return d; }
char* __ir2c_memmove(char* d, char* s, uint64_t n) { if (d < s) { for (uint64_t i = 0; i < n; i++) d[i] = s[i]; } else { for (uint64_t i = n; i > 0; i--) d[i-1] = s[i-1]; } return d; }
char* __ir2c_memset(char* d, uint8_t c, uint64_t n) { for (uint64_t i = 0; i < n; i++) d[i] = (char)c; return d; }
double __ir2c_fabs(double x) { return x < 0 ? -x : x; }
double __ir2c_fmod(double a, double b) { return a - b * (double)(long long)(a / b); }
double __ir2c_nan(void) { return 0.0 / 0.0; } double __ir2c_inf(void) { return 1.0 / 0.0; }
void __ir2c_trap(void) { __CPROVER_assert(0, "llvm.trap reached"); __CPROVER_assume(0); }
void __ir2c_unreachable(void) { __CPROVER_assert(0, "unreachable reached (undefined behaviour)"); __CPROVER_assume(0); }
uint64_t __ir2c_ctlz(uint64_t x, int w) { if (x == 0) return w; return (uint64_t)__builtin_clzll(x) - (64 - w); }
uint64_t __ir2c_cttz(uint64_t x, int w) { if (x == 0) return w; return (uint64_t)__builtin_ctzll(x); }
uint64_t __ir2c_ctpop(uint64_t x, int w) { return (uint64_t)__builtin_popcountll(x); }
static char ti_std_logic_error[8], ti_std_length_error[8], ti_std_bad_alloc[8], ti_std_out_of_range[8];
int __ir2c_ext_subtype(char* t, char* base) { return 0; }
char* ext__Znwm(uint64_t n) { char* p = malloc(n); __CPROVER_assume(p != 0); return p; }
char* ext__Znam(uint64_t n) { char* p = malloc(n); __CPROVER_assume(p != 0); return p; }
void ext__ZdlPv(char* p) { free(p); }
void ext__ZdaPv(char* p) { free(p); }
void ext__ZdlPvm(char* p, uint64_t n) { free(p); }
char* ext___cxa_allocate_exception(uint64_t n) { char* p = malloc(n); __CPROVER_assume(p != 0); return p; }
void ext___cxa_free_exception(char* p) { free(p); }
void ext___cxa_throw(char* obj, char* ti, char* dtor) { __exc_pending = 1; __exc_obj = obj; __exc_type = ti; __verif_throw_seen = 1; }
char* ext___cxa_begin_catch(char* obj) { __exc_pending = 0; return obj; }
void ext___cxa_end_catch(void) { }
void ext___cxa_rethrow(void) { __exc_pending = 1; }
uint32_t ext___cxa_atexit(char* f, char* a, char* d) { return 0; }
static void throw_std(char* ti) { __exc_pending = 1; __exc_obj = malloc(16); __exc_type = ti; __verif_throw_seen = 1; }
void ext__ZSt19__throw_logic_errorPKc(char* m) { throw_std(ti_std_logic_error); }
void ext__ZSt20__throw_length_errorPKc(char* m) { throw_std(ti_std_length_error); }
void ext__ZSt17__throw_bad_allocv(void) { throw_std(ti_std_bad_alloc); }
void ext__ZSt28__throw_bad_array_new_lengthv(void) { throw_std(ti_std_bad_alloc); }
void ext__ZSt24__throw_out_of_range_fmtPKcz(char* m, ...) { throw_std(ti_std_out_of_range); }
void ext__ZSt21__glibcxx_assert_failPKciS0_S0_(char* f, uint32_t l, char* fn, char* c) { __CPROVER_assert(0, "libstdc++ assertion (out-of-range access on a container)"); __CPROVER_assume(0); }
void ext__ZSt9terminatev(void) { __CPROVER_assert(0, "std::terminate"); __CPROVER_assume(0); }
void ext__ZNSt8ios_base4InitC1Ev(char* t) { }
void ext__ZNSt8ios_base4InitD1Ev(char* t) { }
void ext__ZNSt9exceptionD2Ev(char* t) { }
uint32_t ext_isspace(uint32_t c) { return c == ' ' || (c >= 9 && c <= 13); }
uint32_t ext_toupper(uint32_t c) { return (c >= 'a' && c <= 'z') ? c - 32 : c; }
uint32_t ext_tolower(uint32_t c) { return (c >= 'A' && c <= 'Z') ? c + 32 : c; }
uint64_t ext_strlen(char* s) { uint64_t n = 0; while (s[n]) n++; return n; }
char* ext_memchr(char* s, uint32_t c, uint64_t n) { for (uint64_t i = 0; i < n; i++) if ((uint8_t)s[i] == (uint8_t)c) return s + i; return 0; }
uint32_t ext_bcmp(char* a, char* b, uint64_t n) { for (uint64_t i = 0; i < n; i++) if (a[i] != b[i]) return 1; return 0; }
uint32_t ext_memcmp(char* a, char* b, uint64_t n) { for (uint64_t i = 0; i < n; i++) if (a[i] != b[i]) return (uint8_t)a[i] < (uint8_t)b[i] ? -1 : 1; return 0; }
/* environment of bpp::Exception's constructor (stack trace decoration of the message): no frames are reported */
uint32_t ext_backtrace(char* buffer, uint32_t size) { return 0; }
char* ext_backtrace_symbols(char* buffer, uint32_t size) { return 0; }
char* ext___cxa_demangle(char* name, char* out, char* len, char* status) { if (status) *(int*)status = -1; return 0; }
void ext_free(char* p) { free(p); }
/* std::istringstream used by TextTools::fromString<T> (number conversion through iostream): the stream is opaque, extraction yields an arbitrary value of the type */
int nondet_int(void); double nondet_double(void);
void ext__ZNSt7__cxx1119basic_istringstreamIcSt11char_traitsIcESaIcEEC1ERKNS_12basic_stringIcS2_S3_EESt13_Ios_Openmode(char* self, char* str, uint32_t mode) {
  /* the only part of the stream object the inlined destructor looks at: the buffer string of its stringbuf (libstdc++ x86_64 layout: string at +88, its local buffer at +104) is an empty short string */
  *(char**)(self + 88) = self + 104; *(uint64_t*)(self + 96) = 0; self[104] = 0; }
void ext__ZNSt7__cxx1119basic_istringstreamIcSt11char_traitsIcESaIcEED1Ev(char* self) { }
char* ext__ZNSirsERi(char* self, char* out) { *(int*)out = nondet_int(); return self; }
char* ext__ZNSi10_M_extractIdEERSiRT_(char* self, char* out) { *(double*)out = nondet_double(); return self; }
void ext__ZNSt6localeD1Ev(char* self) { }
void ext__ZNSt8ios_baseD2Ev(char* self) { }
