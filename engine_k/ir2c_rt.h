#include <stdint.h>
#include <stddef.h>
extern int __exc_pending; extern char* __exc_obj; extern char* __exc_type;
char* __ir2c_memcpy(char* d, char* s, uint64_t n);
char* __ir2c_memmove(char* d, char* s, uint64_t n);
char* __ir2c_memset(char* d, uint8_t c, uint64_t n);
double __ir2c_fabs(double x); double __ir2c_fmod(double a, double b); double __ir2c_nan(void); double __ir2c_inf(void);
void __ir2c_trap(void); void __ir2c_unreachable(void);
uint64_t __ir2c_ctlz(uint64_t x, int w); uint64_t __ir2c_cttz(uint64_t x, int w); uint64_t __ir2c_ctpop(uint64_t x, int w);
int __ir2c_ext_subtype(char* t, char* base);
int __ir2c_is_subtype(char* t, char* base);
void __ir2c_init_globals(void); void __ir2c_run_ctors(void);
extern char __ir2c_dummy_vt[128];
