// ir2c: lower an LLVM-14 module (clang -O1 output of C++ code) to plain C that CBMC's C front end accepts.
// Prototype.  Memory model: every pointer is `char*`; loads/stores are typed dereferences of casts;
// GEPs are byte arithmetic computed with the module's DataLayout; exceptions are lowered to a pending flag.
#include "llvm/IR/Module.h"
#include "llvm/IR/Instructions.h"
#include "llvm/IR/IntrinsicInst.h"
#include "llvm/IR/Constants.h"
#include "llvm/IR/DataLayout.h"
#include "llvm/IR/GetElementPtrTypeIterator.h"
#include "llvm/IR/LLVMContext.h"
#include "llvm/IR/Operator.h"
#include "llvm/IRReader/IRReader.h"
#include "llvm/Support/SourceMgr.h"
#include "llvm/Support/raw_ostream.h"
#include "llvm/ADT/APFloat.h"
#include <map>
#include <set>
#include <string>
#include <sstream>
#include <cstdio>
using namespace llvm;

static const DataLayout* DL;
static std::map<const GlobalValue*, std::string> gname;
static std::map<Type*, std::string> aggName;
static std::vector<Type*> aggOrder;
static std::map<const GlobalVariable*, int> tinfoId;
static std::set<std::string> usedExt;
static std::string out, hdr;

static void die(const std::string& m) { errs() << "ir2c: " << m << "\n"; exit(2); }

static std::string sanitize(StringRef s, bool trunc = true) {
  std::string r;
  for (char c : s) r.push_back(isalnum((unsigned char)c) ? c : '_');
  if (trunc && r.size() > 60) r = r.substr(0, 60);
  return r;
}

static std::string ctype(Type* T);
static std::string aggType(Type* T) {
  auto it = aggName.find(T);
  if (it != aggName.end()) return it->second;
  std::string n = "struct agg" + std::to_string(aggName.size());
  aggName[T] = n;
  // make sure element types exist first
  if (auto* ST = dyn_cast<StructType>(T)) { for (Type* E : ST->elements()) (void)ctype(E); }
  else if (auto* AT = dyn_cast<ArrayType>(T)) (void)ctype(AT->getElementType());
  aggOrder.push_back(T);
  return n;
}
static std::string ctype(Type* T) {
  if (T->isVoidTy()) return "void";
  if (T->isIntegerTy()) {
    unsigned w = T->getIntegerBitWidth();
    if (w <= 8) return "uint8_t"; if (w <= 16) return "uint16_t"; if (w <= 32) return "uint32_t"; if (w <= 64) return "uint64_t";
    if (w <= 128) return "unsigned __int128";
    die("integer width " + std::to_string(w));
  }
  if (T->isPointerTy()) return "char*";
  if (T->isDoubleTy()) return "double";
  if (T->isFloatTy()) return "float";
  if (T->isX86_FP80Ty()) return "long double";
  if (T->isStructTy() || T->isArrayTy()) return aggType(T);
  std::string s; raw_string_ostream os(s); T->print(os); die("unsupported type " + os.str());
  return "";
}
static std::string stype(Type* T) {  // signed variant for integer types
  unsigned w = T->getIntegerBitWidth();
  if (w <= 8) return "int8_t"; if (w <= 16) return "int16_t"; if (w <= 32) return "int32_t"; if (w <= 64) return "int64_t"; return "__int128";
}
static unsigned cbits(Type* T) { unsigned w = T->getIntegerBitWidth(); return w <= 8 ? 8 : w <= 16 ? 16 : w <= 32 ? 32 : w <= 64 ? 64 : 128; }
static std::string mask(Type* T, const std::string& e) {   // truncate to the LLVM width when it is not a C width
  unsigned w = T->getIntegerBitWidth();
  if (w == cbits(T)) return "(" + ctype(T) + ")(" + e + ")";
  uint64_t m = (w >= 64) ? ~0ull : ((1ull << w) - 1);
  return "(" + ctype(T) + ")((" + e + ") & " + std::to_string(m) + "ull)";
}
static std::string sext(Type* T, const std::string& e) {   // value of e (LLVM type T) as signed C integer of the C width
  unsigned w = T->getIntegerBitWidth(), c = cbits(T);
  if (w == c) return "((" + stype(T) + ")(" + e + "))";
  // shift left then arithmetic shift right
  return "((" + stype(T) + ")((" + stype(T) + ")((" + ctype(T) + ")(" + e + ") << " + std::to_string(c - w) + ") >> " + std::to_string(c - w) + "))";
}

struct FnCtx {
  std::map<const Value*, std::string> names;
  std::map<const BasicBlock*, std::string> labels;
  Function* F;
};

static std::string constExpr(const Constant* C, FnCtx* fc);
static std::string val(const Value* V, FnCtx* fc) {
  if (auto* C = dyn_cast<Constant>(V)) return constExpr(C, fc);
  auto it = fc->names.find(V);
  if (it == fc->names.end()) { std::string s; raw_string_ostream os(s); V->print(os); die("unnamed value " + os.str()); }
  return it->second;
}

static std::string gepExpr(const GEPOperator* G, FnCtx* fc) {
  std::string base = val(G->getPointerOperand(), fc);
  APInt off(64, 0);
  if (G->accumulateConstantOffset(*DL, off)) {
    if (off == 0) return base;
    return "(" + base + " + (int64_t)" + std::to_string(off.getSExtValue()) + "ll)";
  }
  std::string e = base;
  int64_t coff = 0;
  for (gep_type_iterator GTI = gep_type_begin(G), GTE = gep_type_end(G); GTI != GTE; ++GTI) {
    Value* idx = GTI.getOperand();
    if (StructType* ST = GTI.getStructTypeOrNull()) {
      unsigned fi = cast<ConstantInt>(idx)->getZExtValue();
      coff += DL->getStructLayout(ST)->getElementOffset(fi);
    } else {
      uint64_t sz = DL->getTypeAllocSize(GTI.getIndexedType());
      if (auto* CI = dyn_cast<ConstantInt>(idx)) coff += CI->getSExtValue() * (int64_t)sz;
      else e = "(" + e + " + (int64_t)" + sext(idx->getType(), val(idx, fc)) + " * (int64_t)" + std::to_string(sz) + "ll)";
    }
  }
  if (coff) e = "(" + e + " + (int64_t)" + std::to_string(coff) + "ll)";
  return e;
}

static std::string fpLit(const APFloat& f, bool isDouble) {
  if (f.isNaN()) return isDouble ? "__ir2c_nan()" : "(float)__ir2c_nan()";
  if (f.isInfinity()) return std::string(f.isNegative() ? "(-__ir2c_inf())" : "__ir2c_inf()");
  char buf[64];
  if (isDouble) snprintf(buf, 64, "%a", f.convertToDouble()); else snprintf(buf, 64, "%af", (double)f.convertToFloat());
  return std::string("(") + buf + ")";
}

static std::string constExpr(const Constant* C, FnCtx* fc) {
  Type* T = C->getType();
  if (auto* CI = dyn_cast<ConstantInt>(C)) {
    if (CI->getBitWidth() <= 64) return "((" + ctype(T) + ")" + std::to_string(CI->getZExtValue()) + "ull)";
    die("wide int constant");
  }
  if (auto* CF = dyn_cast<ConstantFP>(C)) return fpLit(CF->getValueAPF(), T->isDoubleTy());
  if (isa<ConstantPointerNull>(C)) return "((char*)0)";
  if (isa<UndefValue>(C)) {
    if (T->isStructTy() || T->isArrayTy()) return "(" + ctype(T) + "){0}";
    if (T->isPointerTy()) return "((char*)0)";
    return "((" + ctype(T) + ")0)";
  }
  if (auto* GV = dyn_cast<GlobalVariable>(C)) return "((char*)" + gname[GV] + ")";
  if (auto* F = dyn_cast<Function>(C)) return "((char*)&" + gname[F] + ")";
  if (auto* GA = dyn_cast<GlobalAlias>(C)) return constExpr(GA->getAliasee(), fc);
  if (isa<ConstantAggregateZero>(C)) return "(" + ctype(T) + "){0}";
  if (auto* CE = dyn_cast<ConstantExpr>(C)) {
    switch (CE->getOpcode()) {
      case Instruction::GetElementPtr: return gepExpr(cast<GEPOperator>(CE), fc);
      case Instruction::BitCast: case Instruction::AddrSpaceCast: return constExpr(CE->getOperand(0), fc);
      case Instruction::PtrToInt: return "((" + ctype(T) + ")(uintptr_t)" + constExpr(CE->getOperand(0), fc) + ")";
      case Instruction::IntToPtr: return "((char*)(uintptr_t)" + constExpr(CE->getOperand(0), fc) + ")";
      case Instruction::Sub: return mask(T, constExpr(CE->getOperand(0), fc) + " - " + constExpr(CE->getOperand(1), fc));
      case Instruction::Add: return mask(T, constExpr(CE->getOperand(0), fc) + " + " + constExpr(CE->getOperand(1), fc));
      case Instruction::Trunc: return mask(T, constExpr(CE->getOperand(0), fc));
      case Instruction::ZExt: return "((" + ctype(T) + ")" + constExpr(CE->getOperand(0), fc) + ")";
      default: { std::string s; raw_string_ostream os(s); CE->print(os); die("constexpr " + os.str()); }
    }
  }
  if (auto* CS = dyn_cast<ConstantStruct>(C)) {
    std::string s = "(" + ctype(T) + "){";
    for (unsigned i = 0; i < CS->getNumOperands(); i++) s += (i ? ", " : "") + constExpr(CS->getOperand(i), fc);
    return s + "}";
  }
  std::string s; raw_string_ostream os(s); C->print(os); die("constant " + os.str());
  return "";
}

// ---- global initialisers: flatten to typed stores -------------------------------------------------
static void initStores(const std::string& base, uint64_t off, const Constant* C, std::string& body) {
  Type* T = C->getType();
  if (isa<ConstantAggregateZero>(C) || isa<UndefValue>(C)) return;   // memory is zero-initialised
  if (auto* CDS = dyn_cast<ConstantDataSequential>(C)) {
    uint64_t es = DL->getTypeAllocSize(CDS->getElementType());
    for (unsigned i = 0; i < CDS->getNumElements(); i++) initStores(base, off + i * es, CDS->getElementAsConstant(i), body);
    return;
  }
  if (auto* CA = dyn_cast<ConstantArray>(C)) {
    uint64_t es = DL->getTypeAllocSize(CA->getType()->getElementType());
    for (unsigned i = 0; i < CA->getNumOperands(); i++) initStores(base, off + i * es, CA->getOperand(i), body);
    return;
  }
  if (auto* CS = dyn_cast<ConstantStruct>(C)) {
    const StructLayout* SL = DL->getStructLayout(CS->getType());
    for (unsigned i = 0; i < CS->getNumOperands(); i++) initStores(base, off + SL->getElementOffset(i), CS->getOperand(i), body);
    return;
  }
  if (auto* CI = dyn_cast<ConstantInt>(C)) if (CI->isZero()) return;
  if (isa<ConstantPointerNull>(C)) return;
  body += "  *(" + ctype(T) + "*)(" + base + " + " + std::to_string(off) + ") = " + constExpr(C, nullptr) + ";\n";
}

// ---- instruction translation -----------------------------------------------------------------------
static std::string dummyRet(Function* F) {
  Type* R = F->getReturnType();
  if (R->isVoidTy()) return "return;";
  if (R->isStructTy() || R->isArrayTy()) return "{ " + ctype(R) + " __z = {0}; return __z; }";
  if (R->isPointerTy()) return "return (char*)0;";
  return "return 0;";
}

static std::string fnTypeCast(FunctionType* FT) {
  std::string s = ctype(FT->getReturnType()) + " (*)(";
  for (unsigned i = 0; i < FT->getNumParams(); i++) s += (i ? ", " : "") + ctype(FT->getParamType(i));
  if (FT->isVarArg()) s += FT->getNumParams() ? ", ..." : "";
  if (FT->getNumParams() == 0 && !FT->isVarArg()) s += "void";
  return s + ")";
}

static std::string phiCopies(BasicBlock* from, BasicBlock* to, FnCtx& fc) {
  std::string s;
  std::vector<std::pair<std::string, std::string>> cp;
  for (PHINode& P : to->phis()) cp.push_back({fc.names[&P], val(P.getIncomingValueForBlock(from), &fc)});
  if (cp.empty()) return s;
  if (cp.size() == 1) return cp[0].first + " = " + cp[0].second + "; ";
  for (size_t i = 0; i < cp.size(); i++) s += cp[i].first + "_t = " + cp[i].second + "; ";
  for (size_t i = 0; i < cp.size(); i++) s += cp[i].first + " = " + cp[i].first + "_t; ";
  return s;
}
static std::string jump(BasicBlock* from, BasicBlock* to, FnCtx& fc) { return "{ " + phiCopies(from, to, fc) + "goto " + fc.labels[to] + "; }"; }

static std::string icmpExpr(ICmpInst* I, FnCtx& fc) {
  Value *A = I->getOperand(0), *B = I->getOperand(1);
  std::string a = val(A, &fc), b = val(B, &fc);
  Type* T = A->getType();
  if (T->isPointerTy()) {
    const char* op = nullptr;
    switch (I->getPredicate()) { case CmpInst::ICMP_EQ: op = "=="; break; case CmpInst::ICMP_NE: op = "!="; break; case CmpInst::ICMP_ULT: op = "<"; break;
      case CmpInst::ICMP_ULE: op = "<="; break; case CmpInst::ICMP_UGT: op = ">"; break; case CmpInst::ICMP_UGE: op = ">="; break; default: die("signed ptr cmp"); }
    return "(" + a + " " + op + " " + b + ")";
  }
  switch (I->getPredicate()) {
    case CmpInst::ICMP_EQ: return "(" + a + " == " + b + ")"; case CmpInst::ICMP_NE: return "(" + a + " != " + b + ")";
    case CmpInst::ICMP_ULT: return "(" + a + " < " + b + ")"; case CmpInst::ICMP_ULE: return "(" + a + " <= " + b + ")";
    case CmpInst::ICMP_UGT: return "(" + a + " > " + b + ")"; case CmpInst::ICMP_UGE: return "(" + a + " >= " + b + ")";
    case CmpInst::ICMP_SLT: return "(" + sext(T, a) + " < " + sext(T, b) + ")"; case CmpInst::ICMP_SLE: return "(" + sext(T, a) + " <= " + sext(T, b) + ")";
    case CmpInst::ICMP_SGT: return "(" + sext(T, a) + " > " + sext(T, b) + ")"; case CmpInst::ICMP_SGE: return "(" + sext(T, a) + " >= " + sext(T, b) + ")";
    default: die("icmp pred");
  }
  return "";
}
static std::string fcmpExpr(FCmpInst* I, FnCtx& fc) {
  std::string a = val(I->getOperand(0), &fc), b = val(I->getOperand(1), &fc);
  std::string un = "(" + a + " != " + a + " || " + b + " != " + b + ")";
  switch (I->getPredicate()) {
    case CmpInst::FCMP_FALSE: return "0"; case CmpInst::FCMP_TRUE: return "1";
    case CmpInst::FCMP_OEQ: return "(" + a + " == " + b + ")"; case CmpInst::FCMP_OGT: return "(" + a + " > " + b + ")"; case CmpInst::FCMP_OGE: return "(" + a + " >= " + b + ")";
    case CmpInst::FCMP_OLT: return "(" + a + " < " + b + ")"; case CmpInst::FCMP_OLE: return "(" + a + " <= " + b + ")";
    case CmpInst::FCMP_ONE: return "(!" + un + " && " + a + " != " + b + ")"; case CmpInst::FCMP_ORD: return "(!" + un + ")"; case CmpInst::FCMP_UNO: return un;
    case CmpInst::FCMP_UEQ: return "(" + un + " || " + a + " == " + b + ")"; case CmpInst::FCMP_UGT: return "(!(" + a + " <= " + b + "))"; case CmpInst::FCMP_UGE: return "(!(" + a + " < " + b + "))";
    case CmpInst::FCMP_ULT: return "(!(" + a + " >= " + b + "))"; case CmpInst::FCMP_ULE: return "(!(" + a + " > " + b + "))"; case CmpInst::FCMP_UNE: return "(" + a + " != " + b + ")";
    default: die("fcmp pred");
  }
  return "";
}

static std::string callExpr(CallBase* CB, FnCtx& fc, bool& mayThrow) {
  mayThrow = !CB->doesNotThrow();
  Function* Cal = CB->getCalledFunction();
  std::string args;
  for (unsigned i = 0; i < CB->arg_size(); i++) args += (i ? ", " : "") + val(CB->getArgOperand(i), &fc);
  if (Cal) {
    return gname[Cal] + "(" + args + ")";
  }
  Value* callee = CB->getCalledOperand()->stripPointerCasts();
  if (auto* F2 = dyn_cast<Function>(callee)) {   // call through a bitcast of a known function
    return "((" + fnTypeCast(CB->getFunctionType()) + ")&" + gname[F2] + ")(" + args + ")";
  }
  return "((" + fnTypeCast(CB->getFunctionType()) + ")" + val(CB->getCalledOperand(), &fc) + ")(" + args + ")";
}

static bool handleIntrinsic(CallBase* CB, FnCtx& fc, std::string& line) {
  Function* Cal = CB->getCalledFunction();
  if (!Cal || !Cal->isIntrinsic()) return false;
  std::string n = Cal->getName().str();
  auto A = [&](unsigned i) { return val(CB->getArgOperand(i), &fc); };
  std::string lhs = CB->getType()->isVoidTy() ? "" : fc.names[CB] + " = ";
  Type* T = CB->getType();
  if (n.rfind("llvm.lifetime", 0) == 0 || n.rfind("llvm.dbg", 0) == 0 || n.rfind("llvm.experimental.noalias", 0) == 0 || n.rfind("llvm.invariant", 0) == 0 || n == "llvm.donothing") { line = ";"; return true; }
  if (n.rfind("llvm.assume", 0) == 0) { line = ";"; return true; }
  if (n == "llvm.stacksave") { line = lhs + "(char*)0;"; return true; }       // variable-length arrays are heap blocks here: nothing to save / restore
  if (n == "llvm.stackrestore") { line = ";"; return true; }
  if (n.rfind("llvm.expect", 0) == 0) { line = lhs + A(0) + ";"; return true; }
  if (n.rfind("llvm.memcpy", 0) == 0) { line = "__ir2c_memcpy(" + A(0) + ", " + A(1) + ", " + A(2) + ");"; return true; }
  if (n.rfind("llvm.memmove", 0) == 0) { line = "__ir2c_memmove(" + A(0) + ", " + A(1) + ", " + A(2) + ");"; return true; }
  if (n.rfind("llvm.memset", 0) == 0) { line = "__ir2c_memset(" + A(0) + ", " + A(1) + ", " + A(2) + ");"; return true; }
  if (n.rfind("llvm.umax", 0) == 0) { line = lhs + "(" + A(0) + " > " + A(1) + " ? " + A(0) + " : " + A(1) + ");"; return true; }
  if (n.rfind("llvm.umin", 0) == 0) { line = lhs + "(" + A(0) + " < " + A(1) + " ? " + A(0) + " : " + A(1) + ");"; return true; }
  if (n.rfind("llvm.smax", 0) == 0) { line = lhs + "(" + sext(T, A(0)) + " > " + sext(T, A(1)) + " ? " + A(0) + " : " + A(1) + ");"; return true; }
  if (n.rfind("llvm.smin", 0) == 0) { line = lhs + "(" + sext(T, A(0)) + " < " + sext(T, A(1)) + " ? " + A(0) + " : " + A(1) + ");"; return true; }
  if (n.rfind("llvm.abs", 0) == 0) { line = lhs + mask(T, sext(T, A(0)) + " < 0 ? -" + sext(T, A(0)) + " : " + sext(T, A(0))) + ";"; return true; }
  if (n.rfind("llvm.fabs", 0) == 0) { line = lhs + "__ir2c_fabs(" + A(0) + ");"; return true; }
  if (n.rfind("llvm.trap", 0) == 0) { line = "__ir2c_trap();"; return true; }
  if (n.rfind("llvm.eh.typeid.for", 0) == 0) {
    auto* GV = dyn_cast<GlobalVariable>(CB->getArgOperand(0)->stripPointerCasts());
    if (!GV) die("typeid.for of non-global");
    if (!tinfoId.count(GV)) { int id = tinfoId.size() + 1; tinfoId[GV] = id; }
    line = lhs + "((uint32_t)" + std::to_string(tinfoId[GV]) + ");"; return true;
  }
  if (n.rfind("llvm.ctlz", 0) == 0 || n.rfind("llvm.cttz", 0) == 0 || n.rfind("llvm.ctpop", 0) == 0) {
    std::string f = n.substr(5, 4); if (f == "ctpo") f = "ctpop";
    line = lhs + "(" + ctype(T) + ")__ir2c_" + f + "((uint64_t)" + A(0) + ", " + std::to_string(T->getIntegerBitWidth()) + ");"; return true;
  }
  if (n.rfind("llvm.uadd.with.overflow", 0) == 0 || n.rfind("llvm.umul.with.overflow", 0) == 0 || n.rfind("llvm.usub.with.overflow", 0) == 0) {
    Type* ET = CB->getArgOperand(0)->getType(); unsigned w = ET->getIntegerBitWidth();
    if (w != 64 && w != 32) die("with.overflow width");
    std::string op = n.substr(5, 4);
    std::string r = fc.names[CB];
    if (op == "uadd") line = r + ".f0 = " + A(0) + " + " + A(1) + "; " + r + ".f1 = " + r + ".f0 < " + A(0) + ";";
    else if (op == "usub") line = r + ".f0 = " + A(0) + " - " + A(1) + "; " + r + ".f1 = " + A(0) + " < " + A(1) + ";";
    else line = r + ".f0 = " + A(0) + " * " + A(1) + "; " + r + ".f1 = (" + A(0) + " != 0 && " + r + ".f0 / " + A(0) + " != " + A(1) + ");";
    return true;
  }
  die("intrinsic " + n);
  return false;
}

static void emitFunction(Function& F) {
  FnCtx fc; fc.F = &F;
  int k = 0;
  for (Argument& A : F.args()) fc.names[&A] = "a" + std::to_string(k++);
  int bi = 0;
  for (BasicBlock& B : F) fc.labels[&B] = "L" + std::to_string(bi++);
  std::string decls;
  for (BasicBlock& B : F) for (Instruction& I : B) {
    if (I.getType()->isVoidTy()) continue;
    std::string n = "v" + std::to_string(k++);
    fc.names[&I] = n;
    if (isa<AllocaInst>(I)) continue;   // declared with its buffer
    decls += "  " + ctype(I.getType()) + " " + n + ";";
    if (isa<PHINode>(I)) decls += " " + ctype(I.getType()) + " " + n + "_t;";
    decls += "\n";
  }
  std::string sig = ctype(F.getReturnType()) + " " + gname[&F] + "(";
  k = 0;
  for (Argument& A : F.args()) sig += (k++ ? ", " : "") + ctype(A.getType()) + " " + fc.names[&A];
  if (F.isVarArg()) sig += ", ...";
  if (F.arg_empty() && !F.isVarArg()) sig += "void";
  sig += ")";
  hdr += sig + ";\n";
  std::string body = sig + " {\n" + decls;
  for (BasicBlock& B : F) {
    body += fc.labels[&B] + ": ;\n";
    for (Instruction& I : B) {
      std::string lhs = I.getType()->isVoidTy() ? "" : fc.names[&I] + " = ";
      std::string line;
      Type* T = I.getType();
      auto O = [&](unsigned i) { return val(I.getOperand(i), &fc); };
      if (isa<PHINode>(I)) continue;
      if (auto* AI = dyn_cast<AllocaInst>(&I)) {
        if (!AI->isStaticAlloca()) {   // variable-length array: heap block of the runtime size (never freed: harmless for a bounded run)
          uint64_t esz = DL->getTypeAllocSize(AI->getAllocatedType()); if (esz == 0) esz = 1;
          line = "char* " + fc.names[&I] + " = (char*)malloc(" + std::to_string(esz) + "ull * (uint64_t)(" + val(AI->getArraySize(), &fc) + ") + 1); __CPROVER_assume(" + fc.names[&I] + " != 0);";
          body += "  " + line + "\n"; continue; }
        uint64_t sz = DL->getTypeAllocSize(AI->getAllocatedType()) * cast<ConstantInt>(AI->getArraySize())->getZExtValue();
        if (sz == 0) sz = 1;
        line = "char " + fc.names[&I] + "_buf[" + std::to_string(sz) + "] __attribute__((aligned(16))); char* " + fc.names[&I] + " = " + fc.names[&I] + "_buf;";
      } else if (auto* LI = dyn_cast<LoadInst>(&I)) {
        if (T->isStructTy() || T->isArrayTy()) line = "__ir2c_memcpy((char*)&" + fc.names[&I] + ", " + O(0) + ", sizeof(" + ctype(T) + "));";
        else line = lhs + "*(" + ctype(T) + "*)" + O(0) + ";";
        if (T->isIntegerTy() && T->getIntegerBitWidth() == 1) line = lhs + "(*(uint8_t*)" + O(0) + ") & 1;";
      } else if (auto* SI = dyn_cast<StoreInst>(&I)) {
        Type* VT = SI->getValueOperand()->getType();
        if (VT->isStructTy() || VT->isArrayTy()) { line = "{ " + ctype(VT) + " __t = " + O(0) + "; __ir2c_memcpy(" + O(1) + ", (char*)&__t, sizeof(__t)); }"; }
        else line = "*(" + ctype(VT) + "*)" + O(1) + " = " + O(0) + ";";
      } else if (auto* G = dyn_cast<GetElementPtrInst>(&I)) {
        line = lhs + gepExpr(cast<GEPOperator>(G), &fc) + ";";
      } else if (auto* BO = dyn_cast<BinaryOperator>(&I)) {
        std::string a = O(0), b = O(1);
        if (T->isFloatingPointTy()) {
          const char* op = BO->getOpcode() == Instruction::FAdd ? "+" : BO->getOpcode() == Instruction::FSub ? "-" : BO->getOpcode() == Instruction::FMul ? "*" : BO->getOpcode() == Instruction::FDiv ? "/" : nullptr;
          if (!op) line = lhs + "__ir2c_fmod(" + a + ", " + b + ");"; else line = lhs + a + " " + op + " " + b + ";";
        } else {
          unsigned w = T->getIntegerBitWidth();
          switch (BO->getOpcode()) {
            case Instruction::Add: line = lhs + mask(T, a + " + " + b) + ";"; break;
            case Instruction::Sub: {
              auto* PA = dyn_cast<PtrToIntOperator>(BO->getOperand(0)); auto* PB = dyn_cast<PtrToIntOperator>(BO->getOperand(1));
              if (PA && PB && w == 64) line = lhs + "(uint64_t)(" + val(PA->getPointerOperand(), &fc) + " - " + val(PB->getPointerOperand(), &fc) + ");";   // same-object pointer difference
              else line = lhs + mask(T, a + " - " + b) + ";";
              break; }
            case Instruction::Mul: line = lhs + mask(T, a + " * " + b) + ";"; break;
            case Instruction::UDiv: line = lhs + a + " / " + b + ";"; break;
            case Instruction::URem: line = lhs + a + " % " + b + ";"; break;
            case Instruction::SDiv: line = lhs + mask(T, sext(T, a) + " / " + sext(T, b)) + ";"; break;
            case Instruction::SRem: line = lhs + mask(T, sext(T, a) + " % " + sext(T, b)) + ";"; break;
            case Instruction::And: line = lhs + "(" + a + " & " + b + ");"; break;
            case Instruction::Or: line = lhs + "(" + a + " | " + b + ");"; break;
            case Instruction::Xor: line = lhs + mask(T, a + " ^ " + b) + ";"; break;
            case Instruction::Shl: line = lhs + mask(T, "(" + ctype(T) + ")" + a + " << " + b) + ";"; break;
            case Instruction::LShr: line = lhs + "(" + ctype(T) + ")(" + a + " >> " + b + ");"; break;
            case Instruction::AShr: line = lhs + mask(T, sext(T, a) + " >> " + b) + ";"; break;
            default: die("binop");
          }
          (void)w;
        }
      } else if (auto* UO = dyn_cast<UnaryOperator>(&I)) {
        line = lhs + "-" + O(0) + ";";
      } else if (auto* IC = dyn_cast<ICmpInst>(&I)) { line = lhs + icmpExpr(IC, fc) + ";";
      } else if (auto* FCI = dyn_cast<FCmpInst>(&I)) { line = lhs + fcmpExpr(FCI, fc) + ";";
      } else if (auto* CI = dyn_cast<CastInst>(&I)) {
        Type* ST = CI->getSrcTy(); std::string a = O(0);
        switch (CI->getOpcode()) {
          case Instruction::BitCast:
            if (ST->isPointerTy() && T->isPointerTy()) line = lhs + a + ";";
            else line = "{ " + ctype(ST) + " __s = " + a + "; __ir2c_memcpy((char*)&" + fc.names[&I] + ", (char*)&__s, sizeof(__s)); }";
            break;
          case Instruction::Trunc: line = lhs + mask(T, a) + ";"; break;
          case Instruction::ZExt: line = lhs + "(" + ctype(T) + ")" + a + ";"; break;
          case Instruction::SExt: line = lhs + mask(T, "(" + stype(T) + ")" + sext(ST, a)) + ";"; break;
          case Instruction::PtrToInt: line = lhs + "(" + ctype(T) + ")(uintptr_t)" + a + ";"; break;
          case Instruction::IntToPtr: line = lhs + "(char*)(uintptr_t)" + a + ";"; break;
          case Instruction::SIToFP: line = lhs + "(" + ctype(T) + ")" + sext(ST, a) + ";"; break;
          case Instruction::UIToFP: line = lhs + "(" + ctype(T) + ")" + a + ";"; break;
          case Instruction::FPToSI: line = lhs + mask(T, "(" + stype(T) + ")" + a) + ";"; break;
          case Instruction::FPToUI: line = lhs + mask(T, "(" + ctype(T) + ")" + a) + ";"; break;
          case Instruction::FPExt: case Instruction::FPTrunc: line = lhs + "(" + ctype(T) + ")" + a + ";"; break;
          default: die("cast");
        }
      } else if (auto* SEL = dyn_cast<SelectInst>(&I)) { line = lhs + "(" + O(0) + " ? " + O(1) + " : " + O(2) + ");";
      } else if (auto* EV = dyn_cast<ExtractValueInst>(&I)) {
        std::string e = O(0);
        Type* cur = EV->getAggregateOperand()->getType();
        for (unsigned idx : EV->indices()) { e += cur->isStructTy() ? ".f" + std::to_string(idx) : ".e[" + std::to_string(idx) + "]"; cur = cur->isStructTy() ? cur->getStructElementType(idx) : cur->getArrayElementType(); }
        line = lhs + e + ";";
      } else if (auto* IV = dyn_cast<InsertValueInst>(&I)) {
        std::string e = fc.names[&I];
        Type* cur = T;
        for (unsigned idx : IV->indices()) { e += cur->isStructTy() ? ".f" + std::to_string(idx) : ".e[" + std::to_string(idx) + "]"; cur = cur->isStructTy() ? cur->getStructElementType(idx) : cur->getArrayElementType(); }
        line = fc.names[&I] + " = " + O(0) + "; " + e + " = " + O(1) + ";";
      } else if (auto* BR = dyn_cast<BranchInst>(&I)) {
        if (BR->isUnconditional()) line = jump(&B, BR->getSuccessor(0), fc);
        else line = "if (" + O(0) + ") " + jump(&B, BR->getSuccessor(0), fc) + " else " + jump(&B, BR->getSuccessor(1), fc);
      } else if (auto* SW = dyn_cast<SwitchInst>(&I)) {
        line = "switch (" + O(0) + ") {";
        for (auto& C : SW->cases()) line += " case " + std::to_string(C.getCaseValue()->getZExtValue()) + "ull: " + jump(&B, C.getCaseSuccessor(), fc);
        line += " default: " + jump(&B, SW->getDefaultDest(), fc) + " }";
      } else if (auto* RI = dyn_cast<ReturnInst>(&I)) {
        line = RI->getReturnValue() ? "return " + O(0) + ";" : "return;";
      } else if (isa<UnreachableInst>(I)) { line = "__ir2c_unreachable(); " + dummyRet(&F);
      } else if (auto* RS = dyn_cast<ResumeInst>(&I)) {
        line = "__exc_pending = 1; " + dummyRet(&F);
      } else if (auto* LP = dyn_cast<LandingPadInst>(&I)) {
        std::string r = fc.names[&I];
        line = r + ".f0 = __exc_obj; " + r + ".f1 = 0; { int __m = 0; ";
        for (unsigned c = 0; c < LP->getNumClauses(); c++) {
          if (!LP->isCatch(c)) { continue; }
          Constant* ti = LP->getClause(c);
          auto* GV = dyn_cast<GlobalVariable>(ti->stripPointerCasts());
          if (!GV) { line += "if (!__m) { __m = 1; " + r + ".f1 = 0; } "; continue; }  // catch (...)
          if (!tinfoId.count(GV)) { int id = tinfoId.size() + 1; tinfoId[GV] = id; }
          line += "if (!__m && __ir2c_is_subtype(__exc_type, (char*)" + gname[GV] + ")) { __m = 1; " + r + ".f1 = " + std::to_string(tinfoId[GV]) + "; } ";
        }
        if (!LP->isCleanup()) line += "if (!__m) { __exc_pending = 1; " + dummyRet(&F) + " } ";
        line += "}";
      } else if (auto* CB = dyn_cast<CallBase>(&I)) {
        if (!handleIntrinsic(CB, fc, line)) {
          if (CB->isInlineAsm()) die("inline asm in " + F.getName().str());
          bool mayThrow;
          std::string ce = callExpr(CB, fc, mayThrow);
          line = lhs + ce + ";";
          if (auto* II = dyn_cast<InvokeInst>(CB)) {
            line += " if (__exc_pending) { __exc_pending = 0; " + phiCopies(&B, II->getUnwindDest(), fc) + "goto " + fc.labels[II->getUnwindDest()] + "; } " + jump(&B, II->getNormalDest(), fc);
          } else if (mayThrow) line += " if (__exc_pending) " + dummyRet(&F);
        } else if (auto* II = dyn_cast<InvokeInst>(CB)) line += " " + jump(&B, II->getNormalDest(), fc);
      } else if (auto* AR = dyn_cast<AtomicRMWInst>(&I)) {
        std::string p = "*(" + ctype(T) + "*)" + O(0);
        const char* op = AR->getOperation() == AtomicRMWInst::Add ? "+" : AR->getOperation() == AtomicRMWInst::Sub ? "-" : nullptr;
        if (AR->getOperation() == AtomicRMWInst::Xchg) line = lhs + p + "; " + p + " = " + O(1) + ";";
        else { if (!op) die("atomicrmw op"); line = lhs + p + "; " + p + " = " + mask(T, p + " " + op + " " + O(1)) + ";"; }
      } else if (auto* CX = dyn_cast<AtomicCmpXchgInst>(&I)) {
        Type* ET = CX->getCompareOperand()->getType();
        std::string p = "*(" + ctype(ET) + "*)" + O(0), r = fc.names[&I];
        line = r + ".f0 = " + p + "; " + r + ".f1 = (" + r + ".f0 == " + O(1) + "); if (" + r + ".f1) " + p + " = " + O(2) + ";";
      } else if (isa<FenceInst>(I)) { line = ";";
      } else { std::string s; raw_string_ostream os(s); I.print(os); die("instruction " + os.str()); }
      body += "  " + line + "\n";
    }
  }
  body += "}\n\n";
  out += body;
}

int main(int argc, char** argv) {
  if (argc < 3) { fprintf(stderr, "usage: ir2c in.ll out.c\n"); return 2; }
  LLVMContext Ctx; SMDiagnostic Err;
  std::unique_ptr<Module> M = parseIRFile(argv[1], Err, Ctx);
  if (!M) { Err.print("ir2c", errs()); return 2; }
  DL = &M->getDataLayout();
  int gi = 0;
  for (GlobalVariable& G : M->globals()) gname[&G] = "g" + std::to_string(gi++) + "_" + sanitize(G.getName());
  for (Function& F : *M) {
    if (F.isIntrinsic()) continue;
    gname[&F] = F.isDeclaration() ? "ext_" + sanitize(F.getName(), false) : "f" + std::to_string(gi++) + "_" + sanitize(F.getName());
    if (F.getName() == "verif_harness" || F.getName().startswith("k_") || F.getName().startswith("harness_")) gname[&F] = F.getName().str();
  }
  // globals
  std::string gdecl, ginit = "void __ir2c_init_globals(void) {\n";
  for (GlobalVariable& G : M->globals()) {
    uint64_t sz = G.getValueType()->isSized() ? DL->getTypeAllocSize(G.getValueType()) : 64;
    if (sz == 0) sz = 1;
    if (G.isDeclaration()) { gdecl += "char " + gname[&G] + "[" + std::to_string(sz < 64 ? 64 : sz) + "] __attribute__((aligned(16))); /* external " + G.getName().str() + " */\n";
      // external VTTs / vtables (libstdc++ stream classes whose destructors are inlined): every slot points into a zeroed dummy table, so that the
      // virtual-base offsets read through them are 0 and the (opaque) stream object is only touched inside its own storage
      if (G.getName().startswith("_ZTT") || G.getName().startswith("_ZTV")) for (int k = 0; k < 8; k++) ginit += "  *(char**)(" + gname[&G] + " + " + std::to_string(8 * k) + ") = __ir2c_dummy_vt + 64;\n";
      continue; }
    gdecl += "char " + gname[&G] + "[" + std::to_string(sz) + "] __attribute__((aligned(16)));\n";
  }
  for (GlobalVariable& G : M->globals()) if (!G.isDeclaration()) initStores(gname[&G], 0, G.getInitializer(), ginit);
  // functions
  for (Function& F : *M) {
    if (F.isIntrinsic()) continue;
    if (F.isDeclaration()) {
      FunctionType* FT = F.getFunctionType();
      std::string s = ctype(FT->getReturnType()) + " " + gname[&F] + "(";
      for (unsigned i = 0; i < FT->getNumParams(); i++) s += (i ? ", " : "") + ctype(FT->getParamType(i));
      if (FT->isVarArg()) s += FT->getNumParams() ? ", ..." : "";
      if (FT->getNumParams() == 0 && !FT->isVarArg()) s += "void";
      hdr += s + "); /* " + F.getName().str() + " */\n";
      continue;
    }
    emitFunction(F);
  }
  // global constructors
  ginit += "}\n";
  std::string ctors = "void __ir2c_run_ctors(void) {\n";
  if (GlobalVariable* GC = M->getGlobalVariable("llvm.global_ctors")) if (auto* CA = dyn_cast<ConstantArray>(GC->getInitializer()))
    for (unsigned i = 0; i < CA->getNumOperands(); i++) { auto* CS = cast<ConstantStruct>(CA->getOperand(i)); if (auto* F = dyn_cast<Function>(CS->getOperand(1)->stripPointerCasts())) ctors += "  " + gname[F] + "();\n"; }
  ctors += "}\n";
  // typeinfo subtype table
  std::string sub = "int __ir2c_is_subtype(char* t, char* base) {\n  if (t == base) return 1;\n";
  for (GlobalVariable& G : M->globals()) {
    if (!G.getName().startswith("_ZTI") || G.isDeclaration()) continue;
    auto* CS = dyn_cast<ConstantStruct>(G.getInitializer()); if (!CS) continue;
    for (unsigned i = 2; i < CS->getNumOperands(); i++) {
      auto* B = dyn_cast<GlobalVariable>(CS->getOperand(i)->stripPointerCasts());
      if (B && B->getName().startswith("_ZTI")) sub += "  if (t == (char*)" + gname[&G] + " && __ir2c_is_subtype((char*)" + gname[B] + ", base)) return 1;\n";
    }
  }
  sub += "  return __ir2c_ext_subtype(t, base);\n}\n";
  std::string aggs;
  for (Type* T : aggOrder) {
    aggs += aggName[T] + " { ";
    if (auto* ST = dyn_cast<StructType>(T)) { for (unsigned i = 0; i < ST->getNumElements(); i++) aggs += ctype(ST->getElementType(i)) + " f" + std::to_string(i) + "; "; if (ST->getNumElements() == 0) aggs += "char dummy; "; }
    else { auto* AT = cast<ArrayType>(T); aggs += ctype(AT->getElementType()) + " e[" + std::to_string(AT->getNumElements() ? AT->getNumElements() : 1) + "]; "; }
    aggs += "};\n";
  }
  FILE* f = fopen(argv[2], "w");
  fprintf(f, "/* generated by ir2c from %s */\n#include \"ir2c_rt.h\"\n%s\n%s\n%s\n%s\n%s\n%s\n%s\n", argv[1], aggs.c_str(), gdecl.c_str(), hdr.c_str(), sub.c_str(), out.c_str(), ginit.c_str(), ctors.c_str());
  fclose(f);
  return 0;
}
