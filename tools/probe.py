#!/usr/bin/env python3
"""tools/probe.py <harness.cpp> <budget_s> <mode> DEF1 DEF2 ... [--fix "a=1 b=2"]  : run one harness and print per-configuration statistics"""
import sys, os, time, subprocess, json, collections
sys.path.insert(0, os.path.dirname(os.path.dirname(os.path.abspath(__file__))))
from vlib import build
args = sys.argv[1:]
fix = None
if "--fix" in args:
    i = args.index("--fix"); fix = args[i + 1]; del args[i:i + 2]
src, budget, mode, defs = args[0], args[1], args[2], args[3:]
exe = build.build_harness(os.path.join(build.VERIF, "harness", src), defs)
out = "/tmp/probe_%d.jsonl" % os.getpid()
env = dict(os.environ, SYM_MODE=mode, SYM_PROCS="16", SYM_OUT=out, SYM_BUDGET_S=budget)
if fix: env["SYM_FIX"] = fix
t = time.time(); p = subprocess.run([exe], env=env, capture_output=True, text=True); print("wall %.1f" % (time.time() - t), p.stdout[-500:], p.stderr[-300:])
c = collections.defaultdict(collections.Counter)
for l in open(out):
    try: r = json.loads(l)
    except Exception: continue
    c[r.get("config", "")][r["kind"]] += 1
    if r.get("unknowns", 0): c[r.get("config", "")]["with-unknown"] += 1
    if r["kind"] in ("FAIL", "ABORT", "CRASH"): print(json.dumps(r)[:700])
for k in sorted(c):
    if set(c[k]) - {"OK"} or "-v" in sys.argv: print(k, dict(c[k]))
print("configs", len(c), "all-OK", sum(1 for k in c if not (set(c[k]) - {"OK"})))
os.remove(out)
