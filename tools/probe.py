#!/usr/bin/env python3
"""tools/probe.py <harness.cpp> <budget_s> <mode> DEF1 DEF2 ... [--fix "a=1 b=2"]  : run one harness and print per-configuration statistics"""
import sys, os, time, subprocess, json, collections
sys.path.insert(0, os.path.dirname(os.path.dirname(os.path.abspath(__file__))))
from vlib import build
args = sys.argv[1:]
fix = None
if "--fix" in args:
    i = args.index("--fix"); fix = args[i + 1]; del args[i:i + 2]
args = [a for a in args if a != "-v"]
src, budget, mode, defs = args[0], args[1], args[2], args[3:]
exe = build.build_harness(os.path.join(build.VERIF, "harness", src), defs)
out = "/tmp/probe_%d.jsonl" % os.getpid()
env = dict(os.environ, SYM_MODE=mode, SYM_PROCS="16", SYM_OUT=out, SYM_BUDGET_S=budget)
if fix: env["SYM_FIX"] = fix
t = time.time(); p = subprocess.run([exe], env=env, capture_output=True, text=True); print("wall %.1f" % (time.time() - t), p.stdout[-500:], p.stderr[-300:])
c = collections.defaultdict(collections.Counter)
groups = {}
for l in open(out):
    try: r = json.loads(l)
    except Exception: continue
    c[r.get("config", "")][r["kind"]] += 1
    if r.get("unknowns", 0): c[r.get("config", "")]["with-unknown"] += 1
    if r["kind"] in ("FAIL", "ABORT", "CRASH", "CUT"):
        g = groups.setdefault((r["kind"], r.get("msg", "")), [])
        g.append(r)
for (kind, msg), g in sorted(groups.items()):
    print("%s x%d: %s" % (kind, len(g), msg))
    for r in g[:int(os.environ.get("PROBE_N", "3"))]: print("     ", r.get("config"), json.dumps(r.get("model"))[:300])
if "-v" in sys.argv:
    for k in sorted(c): print(k, dict(c[k]))
print("configs", len(c), "all-OK", sum(1 for k in c if not (set(c[k]) - {"OK"})))
os.remove(out)
