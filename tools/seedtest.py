#!/usr/bin/env python3
"""tools/seedtest.py confirm <PID> <x>      : confirm a seeded change in the scratch worktree /tmp/wt/confirm (tests pass, demo flips) and store it under seeded/<PID>_<x>/
   tools/seedtest.py detect  <PID>_<x> [tier] [CHECKID...] : apply seeded/<PID>_<x>/patch.diff to /repo, run ./check <CHECKID> (default: the property itself), undo; record the verdict in meta.json
The scratch worktree is created on demand and keeps its _build for incremental rebuilds; remove it with `git -C /repo worktree remove --force /tmp/wt/confirm` when done."""
import sys, os, subprocess, json, shutil, re, time
VERIF = os.path.dirname(os.path.dirname(os.path.abspath(__file__)))
WT = "/tmp/wt/confirm"

def sh(cmd, **kw):
    r = subprocess.run(cmd, shell=True, stdout=subprocess.PIPE, stderr=subprocess.STDOUT, text=True, **kw)
    return r.returncode, r.stdout

def ensure_wt():
    if not os.path.isdir(WT):
        rc, out = sh("git -C /repo worktree add --detach %s HEAD" % WT); assert rc == 0, out
    rc, out = sh("git -C %s checkout -q --detach %s && git -C %s checkout -q -- ." % (WT, subprocess.check_output("git -C /repo rev-parse HEAD", shell=True, text=True).strip(), WT)); assert rc == 0, out

def build_and_test():
    rc, out = sh("cd %s && cmake -G Ninja -B _build -DCMAKE_BUILD_TYPE=Release >/dev/null && cmake --build _build -j16 2>&1 | tail -3" % WT)
    if rc: return False, "build failed: " + out[-800:]
    rc, out = sh("cd %s && ctest --test-dir _build -j8 --timeout 900 2>&1 | tail -5" % WT)
    return ("100% tests passed" in out), out[-400:]

def demo_cmd(pid, x):
    src = "/tmp/seed_out/%s/demo_%s.cpp" % (pid, x)
    first = open(src).readline().strip().lstrip("/").strip()
    return first

def run_demo(pid, x, workdir):
    cmd = demo_cmd(pid, x).replace("/tmp/wt/%sy" % pid, WT).replace("/tmp/wt/%sx" % pid, WT).replace("/tmp/wt/%s" % pid, WT)
    rc, out = sh("cd %s && %s" % (workdir, cmd), timeout=600)
    return rc, out[-600:]

def confirm(pid, x):
    ensure_wt()
    d = "/tmp/seed_out/%s" % pid
    ok, out = build_and_test(); assert ok, "pristine suite fails: " + out
    rc0, o0 = run_demo(pid, x, d)
    rc, out = sh("git -C %s apply %s/patch_%s.diff" % (WT, d, x)); assert rc == 0, "patch does not apply: " + out
    try:
        ok, tout = build_and_test()
        rc1, o1 = run_demo(pid, x, d) if ok else (None, "")
    finally:
        sh("git -C %s checkout -q -- ." % WT)
    res = dict(pristine_demo_exit=rc0, patched_build_and_suite_ok=ok, patched_demo_exit=rc1, patched_demo_tail=o1[-300:], suite_tail=tout[-200:])
    good = rc0 == 0 and ok and rc1 not in (0, None)
    print(json.dumps(res, indent=1)); print("CONFIRMED" if good else "NOT CONFIRMED")
    if good:
        sd = os.path.join(VERIF, "seeded", "%s_%s" % (pid, x)); os.makedirs(sd, exist_ok=True)
        shutil.copy("%s/patch_%s.diff" % (d, x), sd + "/patch.diff"); shutil.copy("%s/demo_%s.cpp" % (d, x), sd + "/demo.cpp")
        meta = json.load(open("%s/meta_%s.json" % (d, x)))
        meta["confirmed"] = dict(what_was_run="scratch worktree of /repo HEAD: cmake+ninja build, ctest (20 tests) and the demonstration, first pristine then with patch.diff applied", **res)
        meta["demo_compile_cmd"] = demo_cmd(pid, x)
        json.dump(meta, open(sd + "/meta.json", "w"), indent=1)
    return good

def detect(sid, tier="quick", checks=None):
    sd = os.path.join(VERIF, "seeded", sid)
    pid = sid.split("_")[0]
    checks = checks or [pid]
    # the checks are pointed (VERIF_REPO) at a scratch worktree of /repo's HEAD with the patch applied, and write their evidence to a scratch directory,
    # so /repo and /verif/evidence stay untouched and several detections can run side by side
    wt = "/tmp/wt/detect_" + sid; evd = "/tmp/wt/evid_" + sid
    sh("git -C /repo worktree remove --force %s" % wt); shutil.rmtree(evd, ignore_errors=True); os.makedirs(evd)
    rc, out = sh("git -C /repo worktree add --detach %s HEAD" % wt); assert rc == 0, out
    rc, out = sh("git -C %s apply %s/patch.diff" % (wt, sd)); assert rc == 0, out
    verdicts = {}
    try:
        for c in checks:
            t = time.time()
            rc, out = sh("cd %s && VERIF_REPO=%s VERIF_EVIDENCE_DIR=%s ./check %s %s" % (VERIF, wt, evd, c, tier), timeout=7200)
            lines = [l for l in out.splitlines() if l.startswith(("VIOLATION", "INCONCLUSIVE", "KNOWN-FINDING"))]
            verdicts[c] = dict(exit=rc, tier=tier, wall_s=round(time.time() - t, 1), lines=[l[:300] for l in lines][:8])
            ev = os.path.join(evd, c + ".json")
            if os.path.exists(ev):
                e = json.load(open(ev)); verdicts[c]["counterexamples"] = [dict(job=v.get("job"), msg=v.get("msg"), config=v.get("config"), model=v.get("model")) for v in e["coverage"].get("counterexamples", [])][:4]
    finally:
        sh("git -C /repo worktree remove --force %s" % wt); shutil.rmtree(evd, ignore_errors=True)
    meta = json.load(open(sd + "/meta.json")); meta.setdefault("detection", {}).update(verdicts); json.dump(meta, open(sd + "/meta.json", "w"), indent=1)
    for c, v in verdicts.items(): print(sid, c, "exit", v["exit"], "DETECTED" if v["exit"] == 1 else "MISSED", v["wall_s"], v["lines"][:3])
    return verdicts

if __name__ == "__main__":
    if sys.argv[1] == "confirm": sys.exit(0 if confirm(sys.argv[2], sys.argv[3]) else 1)
    elif sys.argv[1] == "detect": detect(sys.argv[2], sys.argv[3] if len(sys.argv) > 3 else "quick", sys.argv[4:] or None)
