#!/bin/bash
# tools/run_all.sh quick|thorough [ids...] : run every registered check of a tier one after the other and print exit status and wall time
tier=${1:-quick}; shift
ids=${@:-C01 C02 C03 C04 C05 C06 C07 C08 C09 C10 C11 C12 C13 C16 C17 C18 C19 C20}
cd "$(dirname "$0")/.."
for id in $ids; do t0=$(date +%s); out=$(./check $id $tier 2>&1); rc=$?; t1=$(date +%s); echo "$id $tier exit=$rc wall=$((t1-t0))s"; echo "$out" | grep -E "^(VIOLATION|INCONCLUSIVE)" | cut -c1-300; done
