#!/bin/sh
# offline setup: build the LLVM pass plugin and the two runtimes from files on disk
cd "$(dirname "$0")" && python3 -c "
import sys; sys.path.insert(0,'.')
from vlib import build
print(build.ensure_tools())"
