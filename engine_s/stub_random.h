// Environment stub (verification builds only, injected with -include): the uniform random source of libstdc++'s
// real-valued distributions becomes a call into the symbolic runtime, so that randomness is a solver variable.
// std::generate_canonical<double,53,mt19937> is what uniform_real_distribution, normal_distribution, gamma_distribution,
// exponential_distribution and bernoulli_distribution draw from.  Integer draws (uniform_int_distribution, std::shuffle)
// keep using the real Mersenne twister.
#pragma once
#ifdef __cplusplus
#include <random>
extern "C" double __sym_uniform01(void);
namespace std {
template<> inline double generate_canonical<double, 53, mt19937>(mt19937&) { return __sym_uniform01(); }
}
#endif
