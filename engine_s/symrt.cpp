// Engine S runtime: doubles whose bits carry a reserved quiet-NaN tag are handles to z3 terms.
// Every double-precision operation of the instrumented code lands here (see SymFP.cpp).
// Comparisons on symbolic operands ask the solver which outcomes are feasible under the current path
// condition and fork() the process when both are (DFS over feasible paths, bounded concurrency).
//
//  SYM_MODE=real : terms are exact rational functions n/d over the reals (d>0 invariant), normalised to
//                  sum-of-monomials, so identities are decided by normal form and sign questions by nlsat.
//  SYM_MODE=fp   : terms are z3 Float64 (RNE, IEEE predicates, NaN/inf included).
//
// One JSON line per finished path is appended to $SYM_OUT; a SUMMARY line is printed by the root.
#include <z3++.h>
#include <cstdio>
#include <cstdlib>
#include <cstring>
#include <cmath>
#include <cfenv>
#include <string>
#include <vector>
#include <map>
#include <set>
#include <unistd.h>
#include <fcntl.h>
#include <signal.h>
#include <sys/wait.h>
#include <sys/mman.h>
#include <exception>
#include <chrono>
#include "symrt.h"

enum Mode { REAL = 0, FP = 1 };
static Mode mode = REAL;
static z3::context* ctx;
static z3::solver* slv;   // incremental SMT core: used while everything is linear (and for FP mode)
static z3::solver* nls;   // qfnra-nlsat tactic solver: used as soon as the path condition or the query is nonlinear
static bool pc_nonlinear = false;
static void add_pc(const z3::expr& c);
// REAL mode: value = c * prod(nf) / prod(df); c a rational numeral, nf/df monic-normalised polynomial factors (sum-of-monomials
// normal form, leading coefficient 1), every denominator factor carries its sign on this path (s = +1/-1, established by a
// solver query when the division was executed).  Syntactically equal factors cancel, so (a/b)/(c/b) stays a/c.
// FP mode: only c is used (a Float64 term).
struct DF { z3::expr f; int s; };
struct Term { z3::expr c; std::vector<z3::expr> nf; std::vector<DF> df; };
static std::vector<Term>* terms;
static z3::params* somp;
static z3::expr norm(const z3::expr& e) { return e.simplify(*somp); }
static std::vector<std::pair<std::string, z3::expr>>* inputs;
static std::vector<std::string>* choices;
static std::vector<std::string>* axioms_used;
static z3::sort* dsort;
static const uint64_t TAG = 0x7FFA5A0000000000ull, TAGMASK = 0xFFFFFFFF00000000ull;
static int outfd = 1;

struct Shared {
  volatile int active; int maxprocs;
  long paths_ok, paths_fail, paths_pruned, paths_abort, paths_cut, paths_crash;
  long solver_calls, forks, unknowns, by_norm, asserts, q_sat, q_unsat, maxdepth, fresh_solved, div0_pruned, formatted_sym;
  double solver_s; double deadline;   // absolute seconds (steady clock) after which paths are cut
};
static Shared* sh;
static long depth = 0;
static unsigned timeout_ms = 20000;
static bool unknown_both = true;   // unknown on a branch => explore both (over-approximation, sound for "holds")
static long my_unknowns = 0;
static long my_asserts = 0;
static const char* my_witness = "";       // unknown answers on the path condition of this path

static double now_s() { return std::chrono::duration<double>(std::chrono::steady_clock::now().time_since_epoch()).count(); }
static inline uint64_t bits(double d) { uint64_t b; memcpy(&b, &d, 8); return b; }
static inline bool is_sym(double d) { return (bits(d) & TAGMASK) == TAG; }
static z3::expr constant(double d);
static double mk_handleT(const Term& t) {
  // a term that is a plain numeral exactly representable as a double goes back to the concrete world (so that e.g. exp(0) is evaluated natively)
  if (mode == REAL && t.nf.empty() && t.df.empty() && t.c.is_numeral()) {
    double d = 0; bool ok = true; try { d = strtod(t.c.get_decimal_string(40).c_str(), nullptr); } catch (...) { ok = false; }
    if (ok && std::isfinite(d) && fabs(d) < 1e300) { z3::expr back = constant(d); if (z3::eq(back, t.c.simplify())) return d; }
  }
  terms->push_back(t); uint64_t b = TAG | (uint64_t)(terms->size() - 1); double d; memcpy(&d, &b, 8); return d; }
static Term texpr(const z3::expr& e);
static double mk_handle(const z3::expr& e);

static void path_exit(int kind, const char* msg);
static bool detached = false;   // this process runs concurrently with its parent

static void note_crash(int st) {
  __sync_fetch_and_add(&sh->paths_crash, 1);
  char buf[256]; int n = snprintf(buf, sizeof buf, "{\"kind\":\"CRASH\",\"msg\":\"child terminated abnormally\",\"status\":%d}\n", st);
  if (write(outfd, buf, n) < 0) {}
}
#include <sys/time.h>
// Timing: z3's own timeout uses helper threads that do not survive fork(), so no z3 timeout parameter is ever set.
// One ITIMER_REAL per process serves both the per-query limit (handler calls Z3_interrupt -> the check returns unknown)
// and the job's wall budget (handler records the path as CUT and exits).
static void set_itimer(double sec) {
  if (sec < 0.02) sec = 0.02;
  struct itimerval it; memset(&it, 0, sizeof it); it.it_value.tv_sec = (long)sec; it.it_value.tv_usec = (long)((sec - (long)sec) * 1e6);
  setitimer(ITIMER_REAL, &it, 0);
}
static void arm_timer() {      // only the wall budget
  if (sh->deadline <= 0) { struct itimerval it; memset(&it, 0, sizeof it); setitimer(ITIMER_REAL, &it, 0); return; }
  set_itimer(sh->deadline - now_s());
}
static volatile int query_interrupted = 0;
static void arm_query(double sec) {   // per-query limit, never beyond the wall budget
  query_interrupted = 0;
  if (sh->deadline > 0) { double rem = sh->deadline - now_s(); if (rem < sec) sec = rem; }
  set_itimer(sec);
}
static char cfgbuf[600] = "";
static void cfg_update() { std::string c; for (size_t i = 0; i < choices->size(); i++) { if (i) c += " "; c += (*choices)[i]; } for (auto& ch : c) if (ch == '"' || ch == '\\') ch = '_'; snprintf(cfgbuf, sizeof cfgbuf, "%s", c.c_str()); }
static void on_alarm(int) {
  if (sh->deadline <= 0 || now_s() < sh->deadline - 0.011) {
    // per-query limit: ask z3 to give up on the running check; the wall-budget timer is re-armed
    query_interrupted = 1;
    Z3_interrupt(*ctx);
    if (sh->deadline > 0) set_itimer(sh->deadline - now_s()); else set_itimer(1.0);   // keep nudging in case the interrupt was lost
    return;
  }
  // wall budget exhausted while inside the solver / simplifier: this path is cut (reported, never counted as success)
  __sync_fetch_and_add(&sh->paths_cut, 1);
  char m[900]; int n = snprintf(m, sizeof m, "{\"kind\":\"CUT\",\"msg\":\"wall budget exhausted inside a solver or normalisation call\",\"config\":\"%s\"}\n", cfgbuf);
  if (write(outfd, m, n) < 0) {}
  if (detached) __sync_sub_and_fetch(&sh->active, 1);
  int st; while (wait(&st) > 0) {}
  _exit(0);
}
static double wd_seconds = 0; static char wd_msg[200] = "";
static void arm_watchdog() {
  struct itimerval it; memset(&it, 0, sizeof it);
  if (wd_seconds > 0) { it.it_value.tv_sec = (long)wd_seconds; it.it_value.tv_usec = (long)((wd_seconds - (long)wd_seconds) * 1e6); }
  setitimer(ITIMER_VIRTUAL, &it, 0);
}
// returns true in the child. Parent either waits (sequential DFS) or continues concurrently when a slot is free.
static bool fork_path() {
  fflush(stdout); fflush(stderr);
  bool par = false;
  if (sh->maxprocs > 1) { int a = __sync_add_and_fetch(&sh->active, 1); if (a <= sh->maxprocs) par = true; else __sync_sub_and_fetch(&sh->active, 1); }
  pid_t pid = fork();
  if (pid < 0) { perror("fork"); path_exit(3, "fork failed"); }
  if (pid == 0) { detached = par; arm_timer(); arm_watchdog(); return true; }
  if (!par) { int st; waitpid(pid, &st, 0); if (!WIFEXITED(st) || WEXITSTATUS(st) != 0) note_crash(st); }
  return false;
}

static std::string pow2str(int n) {
  std::vector<int> dig{1};
  for (int i = 0; i < n; i++) { int c = 0; for (auto& x : dig) { int v = x * 2 + c; x = v % 10; c = v / 10; } if (c) dig.push_back(c); }
  std::string p; for (auto it = dig.rbegin(); it != dig.rend(); ++it) p.push_back(char('0' + *it));
  return p;
}
static z3::expr constant(double d) {
  if (mode == FP) return ctx->fpa_val(d);
  if (std::isnan(d) || std::isinf(d)) { path_exit(3, "non-finite constant meets symbolic value in REAL mode"); }
  if (d == 0) return ctx->real_val(0);
  int e; double m = frexp(d, &e);            // d = m * 2^e, 0.5<=|m|<1
  long long mi = (long long)ldexp(m, 53); e -= 53;   // exact
  while (mi % 2 == 0 && e < 0) { mi /= 2; e++; }
  z3::expr r = ctx->real_val(std::to_string(mi).c_str());
  if (e != 0) { z3::expr pw = ctx->real_val(pow2str(e < 0 ? -e : e).c_str()); r = e > 0 ? r * pw : r / pw; }
  return r.simplify();
}
static std::string numstr(const z3::expr& e) { return std::string(Z3_get_numeral_string(*ctx, e)); }
static bool is_one(const z3::expr& e) { return e.is_numeral() && numstr(e) == "1"; }
static bool is_zero(const z3::expr& e) { return e.is_numeral() && numstr(e) == "0"; }
static int num_sign(const z3::expr& e) { std::string t = numstr(e); return t == "0" ? 0 : (t[0] == '-' ? -1 : 1); }
static Term tnum(const z3::expr& c) { return Term{c, {}, {}}; }
static Term tconst(double c) { return tnum(constant(c)); }
static bool tzero(const Term& t) { return is_zero(t.c); }
// polynomial -> (leading coefficient, monic polynomial)
static void split(const z3::expr& p0, z3::expr& lc, z3::expr& monic, bool& isnum) {
  z3::expr p = norm(p0);
  if (p.is_numeral()) { lc = p; isnum = true; return; }
  isnum = false;
  z3::expr lead = p;
  if (p.is_app() && p.decl().decl_kind() == Z3_OP_ADD && p.num_args() > 0) lead = p.arg(0);
  lc = ctx->real_val(1);
  if (lead.is_numeral()) lc = lead;
  else if (lead.is_app() && lead.decl().decl_kind() == Z3_OP_MUL && lead.num_args() > 0 && lead.arg(0).is_numeral()) lc = lead.arg(0);
  if (is_zero(lc)) lc = ctx->real_val(1);
  monic = is_one(lc) ? p : norm(p / lc);
}
static Term texpr(const z3::expr& e) {
  z3::expr lc(*ctx), mo(*ctx); bool isnum; split(e, lc, mo, isnum);
  if (isnum) return tnum(lc);
  return Term{lc, {mo}, {}};
}
static double mk_handle(const z3::expr& e) { if (mode == FP) return mk_handleT(Term{e, {}, {}}); return mk_handleT(texpr(e)); }
static Term T(double d) { if (is_sym(d)) return (*terms)[bits(d) & 0xFFFFFFFFull]; return tconst(d); }
static z3::expr prod(const std::vector<z3::expr>& v) { z3::expr r = ctx->real_val(1); bool first = true; for (auto& f : v) { if (first) { r = f; first = false; } else r = r * f; } return r; }
static z3::expr E(const Term& t) {
  if (mode == FP) return t.c;
  z3::expr n = t.nf.empty() ? t.c : (is_one(t.c) ? prod(t.nf) : t.c * prod(t.nf));
  if (t.df.empty()) return n;
  std::vector<z3::expr> d; for (auto& x : t.df) d.push_back(x.f);
  return n / prod(d);
}
static z3::expr E(double d) { return E(T(d)); }
static void cancel(Term& t) {
  if (tzero(t)) { t.nf.clear(); t.df.clear(); return; }
  for (size_t i = 0; i < t.nf.size();) {
    bool hit = false;
    for (size_t j = 0; j < t.df.size(); j++) if (z3::eq(t.nf[i], t.df[j].f)) { t.nf.erase(t.nf.begin() + i); t.df.erase(t.df.begin() + j); hit = true; break; }
    if (!hit) i++;
  }
}
static Term tmul(const Term& a, const Term& b) {
  Term r{norm(a.c * b.c), a.nf, a.df};
  r.nf.insert(r.nf.end(), b.nf.begin(), b.nf.end()); r.df.insert(r.df.end(), b.df.begin(), b.df.end());
  cancel(r); return r;
}
static Term tneg(const Term& a) { Term r = a; r.c = norm(-a.c); return r; }
// multiset difference / helpers on factor lists
static bool take(std::vector<z3::expr>& v, const z3::expr& f) { for (size_t i = 0; i < v.size(); i++) if (z3::eq(v[i], f)) { v.erase(v.begin() + i); return true; } return false; }
static Term tadd(const Term& a, const Term& b, bool sub) {
  if (tzero(b)) return a;
  if (tzero(a)) return sub ? tneg(b) : b;
  // common numerator factors are pulled out, denominators brought to their (syntactic) least common multiple
  std::vector<z3::expr> an = a.nf, bn = b.nf, g;
  for (size_t i = 0; i < an.size();) { if (take(bn, an[i])) { g.push_back(an[i]); an.erase(an.begin() + i); } else i++; }
  std::vector<DF> L = a.df; std::vector<z3::expr> ma, mb;   // ma: factors a's numerator must be multiplied with
  { std::vector<DF> rest = b.df; std::vector<bool> used(a.df.size(), false);
    for (auto& x : rest) { bool hit = false; for (size_t i = 0; i < a.df.size(); i++) if (!used[i] && z3::eq(a.df[i].f, x.f)) { used[i] = true; hit = true; break; }
      if (!hit) { L.push_back(x); ma.push_back(x.f); } }
    for (size_t i = 0; i < a.df.size(); i++) if (!used[i]) mb.push_back(a.df[i].f); }
  z3::expr A = a.c; for (auto& f : an) A = A * f; for (auto& f : ma) A = A * f;
  z3::expr B = b.c; for (auto& f : bn) B = B * f; for (auto& f : mb) B = B * f;
  z3::expr lc(*ctx), mo(*ctx); bool isnum; split(sub ? A - B : A + B, lc, mo, isnum);
  Term r{lc, g, L};
  if (!isnum) r.nf.push_back(mo);
  cancel(r); return r;
}
// an expression whose sign is the sign of x - y on this path (numeral 0 iff identical by normal form)
static z3::expr diffp(const Term& x, const Term& y) {
  Term t = tadd(x, y, true);
  if (tzero(t)) return ctx->real_val(0);
  int s = num_sign(t.c); for (auto& d : t.df) s *= d.s;
  if (t.nf.empty()) return ctx->real_val(s);
  z3::expr p = prod(t.nf);
  return s > 0 ? p : -p;
}
static bool decide(const z3::expr& c0);
static void path_exit(int kind, const char* msg);
// ---- syntactic sign: constants registered as positive (inputs created by __sym_new_positive, values of exp/sqrt-free positive functions) ----
static std::set<unsigned>* posvars; static std::vector<z3::expr>* poskeep;
static std::map<unsigned, int>* sign_memo;
static int known_sign(const z3::expr& e) {      // +1 / -1: sign established syntactically on every path; 0: unknown
  if (e.is_numeral()) return num_sign(e);
  if (!e.is_app()) return 0;
  if (e.is_const()) return posvars->count(e.id()) ? 1 : 0;
  auto it = sign_memo->find(e.id()); if (it != sign_memo->end()) return it->second;
  Z3_decl_kind k = e.decl().decl_kind(); unsigned na = e.num_args(); int r = 0;
  if (k == Z3_OP_MUL) { r = 1; for (unsigned i = 0; i < na && r; i++) r *= known_sign(e.arg(i)); }
  else if (k == Z3_OP_ADD) { r = known_sign(e.arg(0)); for (unsigned i = 1; i < na && r; i++) if (known_sign(e.arg(i)) != r) r = 0; }
  else if (k == Z3_OP_UMINUS) r = -known_sign(e.arg(0));
  else if (k == Z3_OP_DIV && na == 2) r = known_sign(e.arg(0)) * known_sign(e.arg(1));
  else if (k == Z3_OP_POWER && na == 2 && e.arg(1).is_numeral()) { int b = known_sign(e.arg(0)); std::string ps = numstr(e.arg(1)); int pw = atoi(ps.c_str()); r = (ps.find('/') == std::string::npos && pw > 0) ? ((pw % 2) ? b : (b ? 1 : 0)) : 0; }
  sign_memo->insert({e.id(), r}); poskeep->push_back(e);
  return r;
}
// a / b ; establishes the sign of every numerator factor of b (forks where both signs are feasible)
static bool div0_prune = false;
static bool log_atoms = false;
static void div_by_zero() {
  // IEEE gives +-inf/NaN here; the sign of a real zero is not modelled, so the path cannot be continued soundly.
  // With SYM_DIV0_PRUNE the path is dropped and counted (the evidence lists it as outside the claim); otherwise it is an inconclusive ABORT.
  if (div0_prune) { __sync_fetch_and_add(&sh->div0_pruned, 1); path_exit(2, ""); }
  path_exit(3, "division by zero reachable (REAL mode)");
}
static Term tdiv(const Term& a, const Term& b) {
  if (tzero(b)) div_by_zero();
  Term inv{norm(ctx->real_val(1) / b.c), {}, {}};
  for (auto& d : b.df) inv.nf.push_back(d.f);
  z3::expr zero = ctx->real_val(0);
  for (auto& f : b.nf) {
    int ks = known_sign(f);
    if (ks) { __sync_fetch_and_add(&sh->by_norm, 1); inv.df.push_back(DF{f, ks}); continue; }
    if (decide(f == zero)) div_by_zero();
    int sg = decide(f > zero) ? 1 : -1;
    inv.df.push_back(DF{f, sg});
  }
  return tmul(a, inv);
}

static unsigned inc_timeout_ms = 1500;
static std::map<unsigned, bool>* nl_memo;
static bool is_nonlinear(const z3::expr& e) {
  if (!e.is_app()) return false;
  auto it = nl_memo->find(e.id()); if (it != nl_memo->end()) return it->second;
  bool r = false;
  Z3_decl_kind k = e.decl().decl_kind(); unsigned na = e.num_args();
  if (k == Z3_OP_MUL) { unsigned nn = 0; for (unsigned i = 0; i < na; i++) if (!e.arg(i).is_numeral()) nn++; if (nn >= 2) r = true; }
  else if (k == Z3_OP_POWER) r = true;
  else if (k == Z3_OP_DIV && na == 2 && !e.arg(1).is_numeral()) r = true;
  for (unsigned i = 0; i < na && !r; i++) r = is_nonlinear(e.arg(i));
  nl_memo->insert({e.id(), r});
  return r;
}
static void add_pc(const z3::expr& c) {
  slv->add(c);
  if (mode == REAL) { nls->add(c); if (!pc_nonlinear && is_nonlinear(c)) pc_nonlinear = true; }
}
static z3::check_result timed_check(z3::solver* s, double sec) {
  z3::check_result r = z3::unknown;
  arm_query(sec);
  try { r = s->check(); } catch (z3::exception&) { r = z3::unknown; }
  arm_timer();
  return r;
}
// FP mode fallback: a fresh solver (tactic pipeline) sometimes decides what the incremental core gives up on
static z3::check_result fresh_check(const z3::expr* extra, z3::model* mout) {
  z3::solver s2(*ctx);
  for (auto a : slv->assertions()) s2.add(a);
  if (extra) s2.add(*extra);
  z3::check_result r = timed_check(&s2, timeout_ms / 1000.0);
  if (r == z3::sat && mout) *mout = s2.get_model();
  if (r != z3::unknown) __sync_fetch_and_add(&sh->fresh_solved, 1);
  return r;
}
static z3::check_result check(const z3::expr& extra) {
  double t0 = now_s();
  z3::check_result r = z3::unknown;
  if (mode == REAL && (pc_nonlinear || is_nonlinear(extra))) {
    nls->push(); nls->add(extra); r = timed_check(nls, timeout_ms / 1000.0); nls->pop();
    __sync_fetch_and_add(&sh->fresh_solved, 1);
  } else {
    slv->push(); slv->add(extra); r = timed_check(slv, inc_timeout_ms / 1000.0); slv->pop();
    if (r == z3::unknown) { if (mode == REAL) { nls->push(); nls->add(extra); r = timed_check(nls, timeout_ms / 1000.0); nls->pop(); } else r = fresh_check(&extra, nullptr); }
  }
  if (r == z3::unknown && getenv("SYM_DUMP_UNKNOWN")) {
    static int k = 0; char fn[64]; snprintf(fn, 64, "unknown_%d_%d.smt2", (int)getpid(), k++); FILE* f = fopen(fn, "w");
    if (f) { z3::solver s2(*ctx); for (auto a : slv->assertions()) s2.add(a); s2.add(extra); fprintf(f, "%s\n(check-sat)\n", s2.to_smt2().c_str()); fclose(f); }
  }
  __sync_fetch_and_add(&sh->solver_calls, 1);
  if (r == z3::sat) __sync_fetch_and_add(&sh->q_sat, 1); else if (r == z3::unsat) __sync_fetch_and_add(&sh->q_unsat, 1);
  sh->solver_s += now_s() - t0;
  return r;
}
// satisfiability of the current path condition, with a model on request
static z3::check_result check_path(z3::model* mout) {
  z3::check_result r = z3::unknown;
  if (mode == REAL && pc_nonlinear) { r = timed_check(nls, timeout_ms / 1000.0); if (r == z3::sat && mout) *mout = nls->get_model(); return r; }
  r = timed_check(slv, inc_timeout_ms / 1000.0);
  if (r == z3::sat && mout) *mout = slv->get_model();
  if (r == z3::unknown) { if (mode == REAL) { r = timed_check(nls, timeout_ms / 1000.0); if (r == z3::sat && mout) *mout = nls->get_model(); } else r = fresh_check(nullptr, mout); }
  return r;
}

static std::string jesc(const std::string& s) { std::string o; for (char c : s) { if (c == '"' || c == '\\') { o.push_back('\\'); o.push_back(c); } else if (c == '\n') o += "\\n"; else if ((unsigned char)c < 32) o += ' '; else o.push_back(c); } return o; }

static z3::expr* last_cmp = nullptr;     // REAL mode: a - b of the most recent symbolic comparison on this path (the one a failing assertion usually hinges on)
static std::string model_json(bool& have) {
  have = false;
  z3::model m(*ctx);
  z3::check_result r = check_path(&m);
  if (r != z3::sat) return std::string("{}");
  have = true;
  // prefer a counterexample that violates the last comparison by a clear margin, so that it survives the rounding of the native replay
  if (mode == REAL && last_cmp && !getenv("SYM_NO_MARGIN")) {
    for (const char* mg : {"1/100", "1/1000000"}) {
      z3::expr c = (*last_cmp >= ctx->real_val(mg)) || (*last_cmp <= -ctx->real_val(mg));
      bool was_nl = pc_nonlinear; slv->push(); nls->push(); slv->add(c); nls->add(c); if (is_nonlinear(c)) pc_nonlinear = true;
      z3::model m2(*ctx); z3::check_result r2 = check_path(&m2);
      slv->pop(); nls->pop(); pc_nonlinear = was_nl;
      if (getenv("SYM_DEBUG_MARGIN")) fprintf(stderr, "margin %s -> %d  cmp=%s\n", mg, (int)r2, last_cmp->to_string().substr(0, 200).c_str());
      if (r2 == z3::sat) { m = m2; break; }
    }
  }
  // REAL mode: prefer input values that are exactly representable doubles (multiples of 2^-k) when the rounded assignment
  // still satisfies the whole path condition (checked by substitution, no solver involved) so that the native replay follows the same path
  std::map<std::string, std::string> rounded;
  if (mode == REAL && !getenv("SYM_NO_DYADIC")) {
    for (int k : {4, 12, 24, 40}) {
      z3::expr_vector from(*ctx), to(*ctx); std::map<std::string, std::string> cand; bool ok = true;
      for (auto& in : *inputs) { z3::expr v = m.eval(in.second, true); double dv; try { dv = atof(v.get_decimal_string(30).c_str()); } catch (...) { ok = false; break; }
        if (!std::isfinite(dv) || fabs(dv) > 1e12) { ok = false; break; }
        double sc = ldexp(1.0, k); double rv = nearbyint(dv * sc) / sc;
        char b[64]; snprintf(b, 64, "%.0f", rv * sc); z3::expr q = (ctx->real_val(b) / ctx->real_val(pow2str(k).c_str())).simplify();
        from.push_back(in.second); to.push_back(q); snprintf(b, 64, "%.17g", rv); cand[in.first] = b; }
      if (!ok) break;
      bool all = true;
      for (auto a : slv->assertions()) { z3::expr e = a; z3::expr sub = e.substitute(from, to).simplify(); if (!sub.is_true()) { all = false; break; } }
      if (all) { rounded = cand; break; }
    }
  }
  std::string out = "{";
  bool first = true;
  for (auto& in : *inputs) {
    z3::expr v = m.eval(in.second, true);
    std::string s;
    if (rounded.count(in.first)) { if (!first) out += ","; first = false; out += "\"" + jesc(in.first) + "\":\"" + rounded[in.first] + "\""; continue; }
    if (mode == FP) {
      z3::expr bv = m.eval(z3::expr(*ctx, Z3_mk_fpa_to_ieee_bv(*ctx, in.second)), true);
      uint64_t u = 0; if (bv.is_numeral_u64(u)) { double dv; memcpy(&dv, &u, 8); char b[64]; snprintf(b, 64, "%a", dv); s = b; } else s = v.to_string();
    } else {
      try { s = v.get_decimal_string(25); } catch (...) { s = v.to_string(); }
    }
    if (!first) out += ","; first = false;
    out += "\"" + jesc(in.first) + "\":\"" + jesc(s) + "\"";
  }
  out += "}";
  return out;
}

static void emit(const char* kind, const char* msg, bool with_model) {
  std::string out = std::string("{\"kind\":\"") + kind + "\",\"msg\":\"" + jesc(msg) + "\",\"config\":\"";
  for (size_t i = 0; i < choices->size(); i++) { if (i) out += " "; out += jesc((*choices)[i]); }
  out += "\",\"depth\":" + std::to_string(depth) + ",\"unknowns\":" + std::to_string(my_unknowns) + ",\"asserts\":" + std::to_string(my_asserts);
  if (*my_witness) out += std::string(",\"witness\":\"") + my_witness + "\"";
  if (!axioms_used->empty()) { out += ",\"axioms\":["; for (size_t i = 0; i < axioms_used->size(); i++) { if (i) out += ","; out += "\"" + jesc((*axioms_used)[i]) + "\""; } out += "]"; }
  if (with_model) { bool have; std::string mj = model_json(have); out += std::string(",\"have_model\":") + (have ? "true" : "false") + ",\"model\":" + mj; }
  out += "}\n";
  if (write(outfd, out.data(), out.size()) < 0) {}
}

// kind: 0 ok, 1 fail, 2 pruned, 3 abort (unsupported / inconclusive), 4 cut by budget
static void path_exit(int kind, const char* msg) {
  switch (kind) {
    case 0: {
      // reachability witness: the end of the harness is reached under a path condition the solver confirms satisfiable
      z3::check_result w = check_path(nullptr);
      if (w == z3::unsat) { __sync_fetch_and_add(&sh->paths_pruned, 1); break; }   // only possible after an over-approximated 'unknown'
      my_witness = (w == z3::sat) ? "sat" : "unknown";
      __sync_fetch_and_add(&sh->paths_ok, 1); emit("OK", "", false); break; }
    case 1: __sync_fetch_and_add(&sh->paths_fail, 1); emit("FAIL", msg, true); break;
    case 2: __sync_fetch_and_add(&sh->paths_pruned, 1); break;
    case 4: __sync_fetch_and_add(&sh->paths_cut, 1); emit("CUT", msg, false); break;
    default: __sync_fetch_and_add(&sh->paths_abort, 1); emit("ABORT", msg, true); break;
  }
  if (depth > sh->maxdepth) sh->maxdepth = depth;
  fflush(stdout); fflush(stderr);
  if (detached) __sync_sub_and_fetch(&sh->active, 1);
  int st; while (wait(&st) > 0) { if (!WIFEXITED(st) || WEXITSTATUS(st) != 0) note_crash(st); }
  _exit(0);
}

static bool trace_forks = false;
static bool abs_nofork = false;
static std::map<unsigned, bool>* decided;      // per path: simplified condition (ast id) -> truth value on this path
static std::vector<z3::expr>* keep;            // keeps those asts alive so that ids are not reused
// Decide a symbolic condition: returns the concrete truth value for this path, forking if both are feasible.
static bool decide(const z3::expr& c0) {
  z3::expr c = c0.simplify();
  if (c.is_true()) { __sync_fetch_and_add(&sh->by_norm, 1); return true; }
  if (c.is_false()) { __sync_fetch_and_add(&sh->by_norm, 1); return false; }
  // a condition already decided on this path keeps its truth value (the path condition only grows)
  { auto it = decided->find(c.id()); if (it != decided->end()) { __sync_fetch_and_add(&sh->by_norm, 1); return it->second; } }
  if (sh->deadline > 0 && now_s() > sh->deadline) path_exit(4, "wall budget exhausted");
  z3::check_result rt = check(c);
  // the path condition is satisfiable (invariant of the exploration), so if c is infeasible its negation holds on the whole path
  if (rt == z3::unsat) { decided->insert({c.id(), false}); keep->push_back(c); return false; }
  z3::check_result rf = check(!c);
  if (rt == z3::unknown || rf == z3::unknown) {
    __sync_fetch_and_add(&sh->unknowns, 1); my_unknowns++;
    if (!unknown_both) path_exit(3, "solver returned unknown on branch feasibility");
    if (rt == z3::unknown) rt = z3::sat; if (rf == z3::unknown) rf = z3::sat;
  }
  if (rt == z3::sat && rf == z3::unsat) { decided->insert({c.id(), true}); keep->push_back(c); return true; }
  if (rt == z3::unsat && rf == z3::sat) { decided->insert({c.id(), false}); keep->push_back(c); return false; }
  if (rt == z3::unsat && rf == z3::unsat) { path_exit(2, "infeasible path condition"); }
  __sync_fetch_and_add(&sh->forks, 1); depth++;
  keep->push_back(c);
  if (trace_forks) fprintf(stderr, "FORK d=%ld %s\n", depth, c.to_string().c_str());
  if (fork_path()) { add_pc(c); decided->insert({c.id(), true}); return true; }
  add_pc(!c); decided->insert({c.id(), false}); return false;
}

static std::map<std::string, z3::func_decl>* ufs;
static z3::func_decl uf(const std::string& n, int ar) {
  auto it = ufs->find(n); if (it != ufs->end()) return it->second;
  z3::func_decl f = ar == 1 ? ctx->function(n.c_str(), *dsort, *dsort) : ctx->function(n.c_str(), *dsort, *dsort, *dsort);
  ufs->insert({n, f}); return f;
}
static void use_axiom(const char* a) { for (auto& s : *axioms_used) if (s == a) return; axioms_used->push_back(a); }

// ---- transcendental functions in REAL mode: fresh value per distinct argument + instantiated axioms ----
struct TApp { Term arg; z3::expr val; double h; };
static std::map<std::string, std::vector<TApp>>* tapps;
static std::map<std::string, Term>* sqrt_of;    // name of sqrt variable -> radicand
static double trans_app(const std::string& n, double a);
static double hconst(double c) { return c; }
extern "C" double __sym_bin(int opc, double a, double b);
extern "C" int __sym_fcmp(int pred, double a, double b);

static bool same_arg(const Term& x, const Term& y) { z3::expr p = diffp(x, y); return is_zero(p); }

// look up / create the application n(arg); returns index into tapps[n]
static TApp& get_app(const std::string& n, const Term& ta, bool& fresh) {
  auto& lst = (*tapps)[n];
  for (auto& ap : lst) if (same_arg(ta, ap.arg)) { fresh = false; return ap; }
  z3::expr v = ctx->constant((n + "!" + std::to_string(lst.size())).c_str(), *dsort);
  lst.push_back(TApp{ta, v, 0.0}); lst.back().h = mk_handle(v);
  fresh = true; return lst.back();
}
// strictly increasing function: relate the new application to all earlier ones of the same function
static void mono_axioms(const std::string& n, const TApp& me, bool strict) {
  auto& lst = (*tapps)[n];
  z3::expr zero = ctx->real_val(0);
  for (auto& ap : lst) { if (&ap == &me) continue; z3::expr p = diffp(me.arg, ap.arg);   // sign(p) = sign(me.arg - ap.arg)
    if (strict) { add_pc((p < zero) == (me.val < ap.val)); add_pc((p == zero) == (me.val == ap.val)); }
    else { add_pc(z3::implies(p <= zero, me.val <= ap.val)); add_pc(z3::implies(p >= zero, me.val >= ap.val)); } }
}
static const char* PI_LO = "314159265358979323/100000000000000000";   // < pi, > the double nearest to pi
static const char* PI_HI = "314159265358979324/100000000000000000";   // > pi
// link f(x)=r with g(r)=x  (inverse pair): registers the application g(r) with value x
static void inverse_link(const std::string& g, const z3::expr& r, const Term& x) {
  auto& lst = (*tapps)[g];
  Term tr = texpr(r);
  for (auto& ap : lst) if (same_arg(tr, ap.arg)) { add_pc(ap.val == E(x)); return; }
  // g(r) gets a definitional value: a fresh constant equal to x
  z3::expr v = ctx->constant((g + "!" + std::to_string(lst.size())).c_str(), *dsort);
  add_pc(v == E(x));
  lst.push_back(TApp{tr, v, 0.0}); lst.back().h = mk_handle(v);
  mono_axioms(g, lst.back(), true);
}
// ---- log-linear terms: t = sum_k c_k log(a_k) with small integer c_k (no constant part).  exp(t) = prod a_k^c_k exactly (a_k > 0 was established
// when log(a_k) was taken), and t1 < t2  <=>  exp(t1 - t2) < 1.  This keeps log-space algorithms (log-sum-exp, HMM log likelihoods) inside rational functions.
static bool log_linear(const Term& t, std::vector<std::pair<int, int>>& items) {
  if (mode != REAL || !t.df.empty() || tzero(t)) return false;
  auto it0 = tapps->find("log"); if (it0 == tapps->end()) return false;
  z3::expr e = norm(E(t));
  std::vector<z3::expr> adds; if (e.is_app() && e.decl().decl_kind() == Z3_OP_ADD) { for (unsigned i = 0; i < e.num_args(); i++) adds.push_back(e.arg(i)); } else adds.push_back(e);
  for (auto& ad : adds) {
    if (ad.is_numeral()) { if (!is_zero(ad)) return false; continue; }
    z3::expr c = ctx->real_val(1), v = ad;
    if (ad.is_app() && ad.decl().decl_kind() == Z3_OP_MUL && ad.num_args() == 2 && ad.arg(0).is_numeral()) { c = ad.arg(0); v = ad.arg(1); }
    if (!v.is_const() || v.is_numeral()) return false;
    std::string nm = v.decl().name().str(); if (nm.rfind("log!", 0) != 0) return false;
    std::string cs = numstr(c); if (cs.find('/') != std::string::npos || cs.find('.') != std::string::npos) return false;
    int ci = atoi(cs.c_str()), k = atoi(nm.c_str() + 4); if (ci == 0 || ci > 12 || ci < -12 || k < 0 || k >= (int)it0->second.size()) return false;
    items.push_back({k, ci});
  }
  return !items.empty();
}
static Term log_product(const std::vector<std::pair<int, int>>& items) {
  Term r = tconst(1);
  for (auto& it : items) { Term a = (*tapps)["log"][it.first].arg; for (int q = 0; q < (it.second < 0 ? -it.second : it.second); q++) r = it.second > 0 ? tmul(r, a) : tdiv(r, a); }
  return r;
}
static double trans_app(const std::string& n, double a) {
  Term ta = T(a);
  if (n == "exp") { std::vector<std::pair<int, int>> items; if (log_linear(ta, items)) { use_axiom("exp(sum_k c_k log a_k) = prod_k a_k^c_k for integer c_k (a_k > 0)"); return mk_handleT(log_product(items)); } }
  z3::expr x = E(ta);
  z3::expr zero = ctx->real_val(0), one = ctx->real_val(1);
  // domain checks first (may fork / abort)
  if (n == "log") { z3::expr dp = diffp(ta, tconst(0)); if (known_sign(dp) <= 0 && decide(dp <= zero)) { if (div0_prune) { __sync_fetch_and_add(&sh->div0_pruned, 1); path_exit(2, ""); } path_exit(3, "log of a non-positive value reachable (REAL mode)"); } }
  if (n == "atanh") { if (decide(x <= -one || x >= one)) path_exit(3, "atanh outside (-1,1) reachable (REAL mode)"); }
  if (n == "tan") { z3::expr lo = ctx->real_val(PI_LO) / 2; if (decide(x <= -lo || x >= lo)) path_exit(3, "tan outside (-pi/2,pi/2) reachable (REAL mode)"); }
  bool fresh; TApp& ap = get_app(n, ta, fresh);
  if (!fresh) return ap.h;
  z3::expr r = ap.val;
  if (n == "exp") { posvars->insert(r.id()); poskeep->push_back(r); use_axiom("exp: exp(x)>0, strictly increasing, exp(0)=1, x>0<=>exp(x)>1, log(exp(x))=x, exp(x)>=1+x");
    add_pc(r > zero); add_pc((x == zero) == (r == one)); add_pc((x > zero) == (r > one)); add_pc(r >= one + x); mono_axioms(n, ap, true); inverse_link("log", r, ta); }
  else if (n == "log") { use_axiom("log: defined on x>0, strictly increasing, log(1)=0, x>1<=>log(x)>0, exp(log(x))=x, log(x)<=x-1");
    add_pc((x == one) == (r == zero)); add_pc((x > one) == (r > zero)); add_pc(r <= x - one); mono_axioms(n, ap, true); inverse_link("exp", r, ta);
    // exp(r) = x > 0 is implied by the link; nothing else
  }
  else if (n == "tanh") { use_axiom("tanh: range (-1,1), strictly increasing, odd sign, atanh(tanh(x))=x");
    add_pc(r > -one && r < one); add_pc((x > zero) == (r > zero)); add_pc((x == zero) == (r == zero)); mono_axioms(n, ap, true); inverse_link("atanh", r, ta); }
  else if (n == "atanh") { use_axiom("atanh: defined on (-1,1), strictly increasing, odd sign, tanh(atanh(x))=x");
    add_pc((x > zero) == (r > zero)); add_pc((x == zero) == (r == zero)); mono_axioms(n, ap, true); inverse_link("tanh", r, ta); }
  else if (n == "atan") { use_axiom("atan: range (-pi/2,pi/2) with pi bracketed by 16-digit rationals, strictly increasing, odd sign, tan(atan(x))=x");
    z3::expr hi = ctx->real_val(PI_HI) / 2, lo = ctx->real_val(PI_LO) / 2; (void)lo;
    add_pc(r > -hi && r < hi); add_pc((x > zero) == (r > zero)); add_pc((x == zero) == (r == zero)); mono_axioms(n, ap, true); inverse_link("tan", r, ta);
    use_axiom("atan: |x|<=300 => |atan(x)|<1.5675 (atan(300)=1.567463)"); z3::expr k = ctx->real_val(300), bd = ctx->real_val("15675/10000"); add_pc(z3::implies(x <= k, r < bd)); add_pc(z3::implies(x >= -k, r > -bd)); }
  else if (n == "tan") { use_axiom("tan: on (-pi/2,pi/2) strictly increasing, odd sign, atan(tan(x))=x");
    add_pc((x > zero) == (r > zero)); add_pc((x == zero) == (r == zero)); mono_axioms(n, ap, true); inverse_link("atan", r, ta); }
  else if (n == "cosh") { use_axiom("cosh: cosh(x)>=1, cosh(x)^2*(1-tanh(x)^2)=1, cosh(-x)=cosh(x)");
    add_pc(r >= one); double th = trans_app("tanh", a); z3::expr t = E(th); add_pc(r * r * (one - t * t) == one); }
  else if (n == "lgamma") { use_axiom("lgamma: an arbitrary real-valued function (no property used)"); }
  else { std::string m = "transcendental '" + n + "' of a symbolic value has no REAL-mode model"; path_exit(3, m.c_str()); }
  return ap.h;
}

extern "C" {
double __sym_new_double(const char* name) {
  z3::expr v = ctx->constant(name, *dsort);
  inputs->push_back({name, v});
  return mk_handle(v);
}
double __sym_new_positive(const char* name) {
  z3::expr v = ctx->constant(name, *dsort);
  inputs->push_back({name, v});
  if (mode == REAL) { add_pc(v > ctx->real_val(0)); posvars->insert(v.id()); poskeep->push_back(v); }
  else add_pc(z3::expr(*ctx, Z3_mk_fpa_gt(*ctx, v, ctx->fpa_val(0.0))));
  return mk_handle(v);
}
int __sym_choose(const char* name, int lo, int hi) {
  if (const char* fx = getenv("SYM_FIX")) {
    std::string k = std::string(" ") + name + "="; std::string hay = std::string(" ") + fx;
    size_t p = hay.find(k); if (p != std::string::npos) { int v = atoi(hay.c_str() + p + k.size()); choices->push_back(std::string(name) + "=" + std::to_string(v)); cfg_update(); return v; } }
  for (int v = lo; v < hi; v++) {
    __sync_fetch_and_add(&sh->forks, 1); depth++;
    if (fork_path()) { choices->push_back(std::string(name) + "=" + std::to_string(v)); cfg_update(); return v; }
  }
  choices->push_back(std::string(name) + "=" + std::to_string(hi)); cfg_update();
  return hi;
}
void __sym_fail(const char* msg) { path_exit(1, msg); }
void __sym_prune(void) { path_exit(2, ""); }
void __sym_check(int cond, const char* msg) { __sync_fetch_and_add(&sh->asserts, 1); my_asserts++; if (!cond) path_exit(1, msg); }
static void on_vtalrm(int) { path_exit(1, wd_msg); }
void __sym_watchdog(double cpu_seconds, const char* msg) { wd_seconds = cpu_seconds; snprintf(wd_msg, sizeof wd_msg, "%s", msg ? msg : "path did not terminate within its CPU-time watchdog"); signal(SIGVTALRM, on_vtalrm); arm_watchdog(); }
static std::vector<double>* ustream; static int upos = 0, umax_draws = 64;
double __sym_uniform01(void) {
  if (upos >= umax_draws) path_exit(2, "");        // bounded exploration: more draws than SYM_MAX_DRAWS on this path
  if (upos < (int)ustream->size()) return (*ustream)[upos++];
  std::string nm = "u!" + std::to_string(ustream->size());
  z3::expr v = ctx->constant(nm.c_str(), *dsort); inputs->push_back({nm, v});
  if (mode == REAL) { add_pc(v >= ctx->real_val(0) && v < ctx->real_val(1)); }
  else { add_pc(z3::expr(*ctx, Z3_mk_fpa_geq(*ctx, v, ctx->fpa_val(0.0))) && z3::expr(*ctx, Z3_mk_fpa_lt(*ctx, v, ctx->fpa_val(1.0)))); }
  use_axiom("random source: every uniform draw is a fresh unknown u_k with 0 <= u_k < 1");
  double h = mk_handle(v); ustream->push_back(h); upos++; return h;
}
void __sym_uniform_rewind(void) { upos = 0; }
int __sym_uniform_count(void) { return upos; }
void __sym_note(const char* msg) { fprintf(stderr, "[note] %s\n", msg); }
void __sym_label(const char* msg) { choices->push_back(msg); cfg_update(); }
int __sym_is_symbolic(double d) { return is_sym(d); }
int __sym_eq(double a, double b) { return __sym_fcmp(1, a, b); }
int __sym_eq_tol(double a, double b, double tol) { double d = __sym_bin(16, a, b); return __sym_fcmp(5, d, tol) && __sym_fcmp(3, d, -tol); }
double __sym_concretize(double d) {
  if (!is_sym(d)) return d;
  z3::model m(*ctx); if (check_path(&m) != z3::sat) return NAN;
  z3::expr v = m.eval(E(d), true);
  if (mode == FP) { z3::expr bv = m.eval(z3::expr(*ctx, Z3_mk_fpa_to_ieee_bv(*ctx, E(d))), true); uint64_t u = 0; if (bv.is_numeral_u64(u)) { double dv; memcpy(&dv, &u, 8); return dv; } return NAN; }
  try { return atof(v.get_decimal_string(20).c_str()); } catch (...) { return NAN; }
}

double __sym_bin(int opc, double a, double b) {
  // LLVM 14 opcodes: FAdd=14 FSub=16 FMul=18 FDiv=21 FRem=24
  if (!is_sym(a) && !is_sym(b)) {
    if (mode == FP) { switch (opc) { case 14: return a + b; case 16: return a - b; case 18: return a * b; case 21: return a / b; default: return fmod(a, b);} }
    feclearexcept(FE_ALL_EXCEPT);
    volatile double va = a, vb = b, r;
    switch (opc) { case 14: r = va + vb; break; case 16: r = va - vb; break; case 18: r = va * vb; break; case 21: r = va / vb; break; default: r = fmod(va, vb); }
    if (!fetestexcept(FE_INEXACT | FE_OVERFLOW | FE_UNDERFLOW | FE_INVALID | FE_DIVBYZERO)) return r;
    if (std::isnan(r) || std::isinf(r) || std::isnan(a) || std::isnan(b) || std::isinf(a) || std::isinf(b)) return r; // stays concrete non-finite
    if (opc == 24) return r;
  }
  if (mode == FP) {
    z3::expr x = E(a), y = E(b);
    switch (opc) { case 14: return mk_handle(x + y); case 16: return mk_handle(x - y); case 18: return mk_handle(x * y); case 21: return mk_handle(x / y);
      default: path_exit(3, "frem symbolic"); }
  }
  // REAL mode: non-finite concrete operands combined with symbolic reals
  if ((!is_sym(a) && !std::isfinite(a)) || (!is_sym(b) && !std::isfinite(b))) {
    double c = is_sym(a) ? b : a;
    if (std::isnan(c)) return c;
    if (opc == 14) return c;                       // x + inf, inf + x
    if (opc == 16) return is_sym(a) ? -c : c;      // x - inf, inf - x
    if (opc == 21 && is_sym(a)) return 0.0;        // x / inf  (sign of zero is not modelled)
    if (opc == 18 || opc == 21) {                  // x * inf, inf / x : sign of x decides, zero gives NaN
      double x = is_sym(a) ? a : b;
      if (__sym_fcmp(1, x, 0.0)) return opc == 18 ? NAN : c;
      return __sym_fcmp(2, x, 0.0) ? c : -c;
    }
    path_exit(3, "non-finite operand in symbolic frem");
  }
  {
    Term a_ = T(a), b_ = T(b);
    switch (opc) {
      case 14: return mk_handleT(tadd(a_, b_, false));
      case 16: return mk_handleT(tadd(a_, b_, true));
      case 18: return mk_handleT(tmul(a_, b_));
      case 21: return mk_handleT(tdiv(a_, b_));
      default: path_exit(3, "frem symbolic");
    }
  }
  return 0;
}
double __sym_neg(double a) { if (!is_sym(a)) return -a; if (mode == FP) return mk_handle(-E(a)); return mk_handleT(tneg(T(a))); }
double __sym_fma(double a, double b, double c) { return __sym_bin(14, __sym_bin(18, a, b), c); }

int __sym_fcmp(int pred, double a, double b) {
  // FCmp predicates: 0 false,1 oeq,2 ogt,3 oge,4 olt,5 ole,6 one,7 ord,8 uno,9 ueq,10 ugt,11 uge,12 ult,13 ule,14 une,15 true
  if (!is_sym(a) && !is_sym(b)) {
    bool un = std::isnan(a) || std::isnan(b);
    switch (pred) { case 0: return 0; case 1: return a == b; case 2: return a > b; case 3: return a >= b; case 4: return a < b; case 5: return a <= b;
      case 6: return !un && a != b; case 7: return !un; case 8: return un; case 9: return un || a == b; case 10: return un || a > b; case 11: return un || a >= b;
      case 12: return un || a < b; case 13: return un || a <= b; case 14: return un || a != b; default: return 1; }
  }
  if (mode == REAL) {
    if (!is_sym(a) || !is_sym(b)) {
      double conc = is_sym(a) ? b : a; bool concIsA = !is_sym(a);
      if (std::isnan(conc)) return pred >= 8; // unordered
      if (std::isinf(conc)) {
        bool pos = conc > 0; bool lt, gt; if (concIsA) { lt = !pos; gt = pos; } else { lt = pos; gt = !pos; } // a<b , a>b
        switch (pred & 7) { case 0: return pred == 15 ? 1 : 0; case 1: return 0; case 2: return gt; case 3: return gt; case 4: return lt; case 5: return lt; case 6: return 1; default: return pred == 7 ? 1 : (pred == 15); }
      }
    }
    z3::expr p = diffp(T(a), T(b));
    z3::expr zero = ctx->real_val(0);
    if (!is_zero(p)) { z3::expr dd = E(tadd(T(a), T(b), true)); if (!last_cmp) last_cmp = new z3::expr(dd); else *last_cmp = dd; }   // the true difference a - b (p is only sign-equivalent)
    if (!is_zero(p)) { Term d = tadd(T(a), T(b), true); std::vector<std::pair<int, int>> items;
      if (log_linear(d, items)) { use_axiom("log-linear comparison: sum_k c_k log a_k < 0 <=> prod_k a_k^c_k < 1"); p = diffp(log_product(items), tconst(1)); } }
    { int ks = is_zero(p) ? 0 : known_sign(p);
      if (ks) { __sync_fetch_and_add(&sh->by_norm, 1); switch (pred) { case 0: return 0; case 1: case 9: return 0; case 2: case 10: return ks > 0; case 3: case 11: return ks > 0; case 4: case 12: return ks < 0; case 5: case 13: return ks < 0; case 6: case 14: return 1; case 7: return 1; case 8: return 0; default: return 1; } } }
    switch (pred) { case 0: return 0; case 1: case 9: return decide(p == zero); case 2: case 10: return decide(p > zero); case 3: case 11: return decide(p >= zero);
      case 4: case 12: return decide(p < zero); case 5: case 13: return decide(p <= zero); case 6: case 14: return decide(p != zero); case 7: return 1; case 8: return 0; default: return 1; }
  }
  z3::expr x = E(a), y = E(b);
  z3::expr un = z3::expr(*ctx, Z3_mk_fpa_is_nan(*ctx, x)) || z3::expr(*ctx, Z3_mk_fpa_is_nan(*ctx, y));
  z3::expr eq = z3::expr(*ctx, Z3_mk_fpa_eq(*ctx, x, y)), lt = z3::expr(*ctx, Z3_mk_fpa_lt(*ctx, x, y)), gt = z3::expr(*ctx, Z3_mk_fpa_gt(*ctx, x, y)),
           le = z3::expr(*ctx, Z3_mk_fpa_leq(*ctx, x, y)), ge = z3::expr(*ctx, Z3_mk_fpa_geq(*ctx, x, y));
  switch (pred) { case 0: return 0; case 1: return decide(eq); case 2: return decide(gt); case 3: return decide(ge); case 4: return decide(lt); case 5: return decide(le);
    case 6: return decide(!un && !eq); case 7: return decide(!un); case 8: return decide(un); case 9: return decide(un || eq); case 10: return decide(un || gt);
    case 11: return decide(un || ge); case 12: return decide(un || lt); case 13: return decide(un || le); case 14: return decide(un || !eq); default: return 1; }
}

// conversion of a symbolic real to an integer: enumerate the feasible truncations (bounded), one path each
static long long sym_trunc_enum(double a, const char* what, int modeRound /*0 trunc,1 floor,2 ceil*/) {
  if (mode == FP) path_exit(3, "fp->int conversion of a symbolic value (FP mode)");
  Term t = T(a); z3::expr x = E(t);
  for (int iter = 0; iter < 64; iter++) {
    if (sh->deadline > 0 && now_s() > sh->deadline) path_exit(4, "wall budget exhausted");
    z3::model m(*ctx); z3::check_result r = check_path(&m);
    if (r == z3::unsat) path_exit(2, "infeasible");
    if (r != z3::sat) path_exit(3, "solver unknown during integer conversion");
    z3::expr v = m.eval(x, true);
    double dv; try { dv = atof(v.get_decimal_string(30).c_str()); } catch (...) { path_exit(3, "non-numeral model value in integer conversion"); }
    if (fabs(dv) > 1e15) path_exit(3, "integer conversion of an unbounded symbolic value");
    long long k = modeRound == 1 ? (long long)floor(dv) : modeRound == 2 ? (long long)ceil(dv) : (long long)trunc(dv);
    z3::expr kk = ctx->real_val(std::to_string(k).c_str()), one = ctx->real_val(1);
    z3::expr in(*ctx);
    if (modeRound == 1) in = (x >= kk) && (x < kk + one);
    else if (modeRound == 2) in = (x > kk - one) && (x <= kk);
    else if (k > 0) in = (x >= kk) && (x < kk + one); else if (k < 0) in = (x > kk - one) && (x <= kk); else in = (x > -one) && (x < one);
    // the model value itself may sit on a boundary the decimal string rounds across: verify
    if (check(in) != z3::sat) { in = (x >= kk - one) && (x < kk); k = k - 1; if (check(in) != z3::sat) path_exit(3, "integer conversion: could not bracket model value"); }
    z3::check_result other = check(!in);
    if (other == z3::unsat) { add_pc(in); return k; }
    __sync_fetch_and_add(&sh->forks, 1); depth++;
    if (fork_path()) { add_pc(in); return k; }
    add_pc(!in);
  }
  path_exit(3, (std::string("more than 64 feasible integer values in ") + what).c_str());
  return 0;
}
long long __sym_fptoi(double a, int isSigned, int bitsw) {
  if (!is_sym(a)) return isSigned ? (long long)a : (long long)(unsigned long long)a;
  long long k = sym_trunc_enum(a, "fptosi/fptoui", 0);
  if (!isSigned && k < 0) path_exit(3, "negative symbolic value converted to unsigned (UB)");
  return k;
}
// a double handed to a function outside the instrumented code. Text formatting (iostream / printf family) of a symbolic value is counted and lets the
// value through (it prints as "nan": messages and logs are not the subject; control flow that depends on such text is outside every claim and the count is
// reported in the evidence); any other external function receiving a symbolic value ends the path as unsupported.
double __sym_ext_arg(double a, const char* callee) {
  if (!is_sym(a)) return a;
  if (strstr(callee, "_M_insertI") || strstr(callee, "printf") || strstr(callee, "_ZNSolsE")) { __sync_fetch_and_add(&sh->formatted_sym, 1); return a; }
  static std::string m; m = std::string("a symbolic value reaches the external function '") + callee + "', which has no model"; path_exit(3, m.c_str());
  return a;
}
double __sym_concrete(double a, const char* why) { if (is_sym(a)) path_exit(3, why); return a; }

typedef double (*un_t)(double);
double __sym_un(const char* name, double a) {
  std::string n(name);
  if (!is_sym(a)) {
    static std::map<std::string, un_t> tab = {{"exp", exp},{"log", log},{"sqrt", sqrt},{"fabs", fabs},{"tanh", tanh},{"atanh", atanh},{"tan", tan},{"atan", atan},{"cosh", cosh},{"sinh", sinh},{"cos", cos},{"sin", sin},{"floor", floor},{"ceil", ceil},{"lgamma", lgamma},{"log10", log10},{"log1p", log1p},{"expm1", expm1},{"exp2", exp2},{"log2", log2},{"round", round},{"trunc", trunc},{"rint", rint},{"nearbyint", nearbyint},{"tgamma", tgamma},{"erf", erf},{"erfc", erfc},{"asin", asin},{"acos", acos}};
    // SYM_LOG_ATOMS: the logarithm of a concrete positive number other than 1 is kept as an exact atom log(q), so that exp(sum c_k log q_k) = prod q_k^c_k stays exact
    if (!(log_atoms && mode == REAL && n == "log" && a > 0 && a != 1 && a < 1e300)) return tab.at(n)(a);
  }
  if (mode == REAL) {
    Term ta = T(a); z3::expr x = E(ta);
    if (n == "fabs") {
      if (abs_nofork) {   // |a| as a fresh value t with t>=0 and (t=a or t=-a): no path split on the sign of a (the solver case-splits internally when the sign matters)
        bool fresh; TApp& ap = get_app("abs", ta, fresh);
        if (fresh) { use_axiom("abs: t=|a| introduced as t>=0 and (t=a or t=-a), without forking on the sign of a"); add_pc(ap.val >= 0); add_pc(ap.val == x || ap.val == -x); }
        return ap.h; }
      if (__sym_fcmp(3, a, 0.0)) return a; return __sym_neg(a); }
    if (n == "sqrt") {
      if (decide(diffp(ta, tconst(0)) < ctx->real_val(0))) return NAN;     // sqrt of a negative real is NaN (concrete)
      bool fresh; TApp& ap = get_app("sqrt", ta, fresh);
      if (fresh) { use_axiom("sqrt: s>=0 and s*s=x"); add_pc(ap.val >= 0 && ap.val * ap.val == x); (*sqrt_of).insert({ap.val.to_string(), ta}); mono_axioms("sqrt", ap, true); }
      return ap.h;
    }
    if (n == "log1p") return trans_app("log", __sym_bin(14, 1.0, a));      // log1p(x) = log(1 + x), expm1(x) = exp(x) - 1 in exact arithmetic
    if (n == "expm1") return __sym_bin(16, trans_app("exp", a), 1.0);
    if (n == "floor") return (double)sym_trunc_enum(a, "floor", 1);
    if (n == "ceil") return (double)sym_trunc_enum(a, "ceil", 2);
    if (n == "trunc") return (double)sym_trunc_enum(a, "trunc", 0);
    return trans_app(n, a);
  }
  z3::expr x = E(a);
  if (n == "fabs") return mk_handle(z3::expr(*ctx, Z3_mk_fpa_abs(*ctx, x)));
  if (n == "sqrt") return mk_handle(z3::expr(*ctx, Z3_mk_fpa_sqrt(*ctx, ctx->fpa_rounding_mode(), x)));
  // FP mode: transcendental = uninterpreted Float64 function constrained by the special-value facts of IEEE/C99 Annex F
  z3::expr r = uf(n, 1)(x);
  z3::expr pinf = ctx->fpa_inf(*dsort, false), ninf = ctx->fpa_inf(*dsort, true), zero = ctx->fpa_val(0.0), one = ctx->fpa_val(1.0);
  auto isnan = [&](const z3::expr& e) { return z3::expr(*ctx, Z3_mk_fpa_is_nan(*ctx, e)); };
  auto feq = [&](const z3::expr& p, const z3::expr& q) { return z3::expr(*ctx, Z3_mk_fpa_eq(*ctx, p, q)); };
  auto flt = [&](const z3::expr& p, const z3::expr& q) { return z3::expr(*ctx, Z3_mk_fpa_lt(*ctx, p, q)); };
  auto fle = [&](const z3::expr& p, const z3::expr& q) { return z3::expr(*ctx, Z3_mk_fpa_leq(*ctx, p, q)); };
  if (n == "exp") { use_axiom("FP exp: exp(NaN)=NaN, exp(-inf)=+0, exp(+inf)=+inf, exp(x)>=+0 never NaN otherwise, exp(x)<=1 iff x<=0, exp(0)=1, non-decreasing, finite for x<=709, +inf for x>=710, +0 for x<=-746, positive for x>=-744");
    add_pc(isnan(x) == isnan(r)); add_pc(z3::implies(feq(x, ninf), feq(r, zero))); add_pc(z3::implies(feq(x, pinf), feq(r, pinf)));
    add_pc(z3::implies(!isnan(x), fle(zero, r))); add_pc(z3::implies(!isnan(x), fle(x, zero) == fle(r, one))); add_pc(z3::implies(feq(x, zero), feq(r, one)));
    add_pc(z3::implies(!isnan(x) && !feq(x, ninf), flt(zero, r) || flt(x, ctx->fpa_val(-700.0))));
    // overflow / underflow thresholds of the binary64 exponential (log DBL_MAX = 709.78..., log of the smallest subnormal = -744.44...)
    add_pc(z3::implies(fle(x, ctx->fpa_val(709.0)), flt(r, pinf))); add_pc(z3::implies(fle(ctx->fpa_val(710.0), x), feq(r, pinf)));
    add_pc(z3::implies(fle(x, ctx->fpa_val(-746.0)), feq(r, zero))); add_pc(z3::implies(fle(ctx->fpa_val(-744.0), x), flt(zero, r)));
    static std::vector<std::pair<z3::expr, z3::expr>>* prev = new std::vector<std::pair<z3::expr, z3::expr>>();
    for (auto& pr : *prev) { add_pc(z3::implies(fle(pr.first, x), fle(pr.second, r))); add_pc(z3::implies(fle(x, pr.first), fle(r, pr.second))); }
    prev->push_back({x, r}); }
  else if (n == "log") { use_axiom("FP log: log(NaN)=NaN, log(x<0)=NaN, log(+-0)=-inf, log(+inf)=+inf, log(1)=0, finite for finite x>0, log(x)<=0 iff x<=1, log(x)<=x for x>=1, non-decreasing");
    add_pc(z3::implies(isnan(x) || flt(x, zero), isnan(r))); add_pc(z3::implies(feq(x, zero), feq(r, ninf))); add_pc(z3::implies(feq(x, pinf), feq(r, pinf)));
    add_pc(z3::implies(flt(zero, x), !isnan(r))); add_pc(z3::implies(flt(zero, x) && !feq(x, pinf), flt(ninf, r) && flt(r, pinf)));
    add_pc(z3::implies(flt(zero, x), fle(x, one) == fle(r, zero))); add_pc(z3::implies(feq(x, one), feq(r, zero))); add_pc(z3::implies(fle(one, x), fle(r, x)));
    static std::vector<std::pair<z3::expr, z3::expr>>* prev = new std::vector<std::pair<z3::expr, z3::expr>>();
    for (auto& pr : *prev) { add_pc(z3::implies(fle(pr.first, x) && fle(zero, pr.first), fle(pr.second, r))); add_pc(z3::implies(fle(x, pr.first) && fle(zero, x), fle(r, pr.second))); }
    prev->push_back({x, r}); }
  else if (n == "log1p") { use_axiom("FP log1p: log1p(NaN)=NaN, log1p(x<-1)=NaN, log1p(-1)=-inf, log1p(+inf)=+inf, log1p(+-0)=0, finite for finite x>-1, sign of x, 0<=log1p(x)<=x for x>=0, non-decreasing");
    z3::expr mone = ctx->fpa_val(-1.0);
    add_pc(z3::implies(isnan(x) || flt(x, mone), isnan(r))); add_pc(z3::implies(feq(x, mone), feq(r, ninf))); add_pc(z3::implies(feq(x, pinf), feq(r, pinf)));
    add_pc(z3::implies(flt(mone, x), !isnan(r))); add_pc(z3::implies(flt(mone, x) && !feq(x, pinf), flt(ninf, r) && flt(r, pinf)));
    add_pc(z3::implies(flt(mone, x), fle(x, zero) == fle(r, zero))); add_pc(z3::implies(feq(x, zero), feq(r, zero))); add_pc(z3::implies(fle(zero, x), fle(zero, r) && fle(r, x)));
    static std::vector<std::pair<z3::expr, z3::expr>>* prev = new std::vector<std::pair<z3::expr, z3::expr>>();
    for (auto& pr : *prev) { add_pc(z3::implies(fle(pr.first, x) && fle(mone, pr.first), fle(pr.second, r))); add_pc(z3::implies(fle(x, pr.first) && fle(mone, x), fle(r, pr.second))); }
    prev->push_back({x, r}); }
  else { std::string m = "transcendental '" + n + "' of a symbolic value has no FP-mode model"; path_exit(3, m.c_str()); }
  return mk_handle(r);
}
double __sym_bi(const char* name, double a, double b) {
  std::string n(name);
  if (!is_sym(a) && !is_sym(b)) {
    if (n == "pow") return pow(a, b); if (n == "fmod") return fmod(a, b); if (n == "atan2") return atan2(a, b); if (n == "fmin") return fmin(a, b);
    if (n == "fmax") return fmax(a, b); if (n == "copysign") return copysign(a, b); if (n == "hypot") return hypot(a, b);
  }
  if (mode == REAL && n == "pow" && !is_sym(b) && b == floor(b) && fabs(b) <= 16) {
    int k = (int)fabs(b); double r = 1.0; for (int i = 0; i < k; i++) r = __sym_bin(18, r, a); return b < 0 ? __sym_bin(21, 1.0, r) : r;
  }
  if (mode == REAL && n == "pow") {   // x^y = exp(y*log x) for x>0
    if (__sym_fcmp(5, a, 0.0)) path_exit(3, "pow with non-positive symbolic base and non-integer exponent");
    use_axiom("pow(x,y)=exp(y*log(x)) for x>0");
    return trans_app("exp", __sym_bin(18, b, trans_app("log", a)));
  }
  if (n == "fmin") { if (__sym_fcmp(5, a, b)) return a; return b; }
  if (n == "fmax") { if (__sym_fcmp(3, a, b)) return a; return b; }
  if (mode == REAL && n == "hypot") { double s = __sym_bin(14, __sym_bin(18, a, a), __sym_bin(18, b, b)); return __sym_un("sqrt", s); }
  { std::string m = "binary libm function '" + n + "' of a symbolic value has no model"; path_exit(3, m.c_str()); }
  return 0;
}

// ---- uninterpreted user functions (objective functions, parent cdfs, ...) ----
struct App { Term arg; Term arg2; z3::expr val; };
static std::map<std::string, std::vector<App>>* apps;
static std::map<std::string, int>* app_mono;
static double apply_n(const char* fname, double a, double b, int ar) {
  if (mode == FP) { if (ar == 1) return mk_handle(uf(std::string("uf!") + fname, 1)(E(a))); return mk_handle(uf(std::string("uf2!") + fname, 2)(E(a), E(b))); }
  auto& lst = (*apps)[fname];
  Term ta = T(a), tb = ar == 2 ? T(b) : tconst(0);
  for (auto& ap : lst) if (same_arg(ta, ap.arg) && same_arg(tb, ap.arg2)) return mk_handle(ap.val);
  z3::expr v = ctx->constant((std::string(fname) + "!" + std::to_string(lst.size())).c_str(), *dsort);
  z3::expr zero = ctx->real_val(0);
  for (auto& ap : lst) { z3::expr p = diffp(ta, ap.arg), q = diffp(tb, ap.arg2);
    add_pc(z3::implies(p == zero && q == zero, v == ap.val));   // Ackermann consistency
    auto it = app_mono->find(fname);
    if (it != app_mono->end() && ar == 1) { if (it->second) { add_pc((p < zero) == (v < ap.val)); } else { add_pc(z3::implies(p <= zero, v <= ap.val)); add_pc(z3::implies(p >= zero, v >= ap.val)); } } }
  inputs->push_back({std::string(fname) + "!" + std::to_string(lst.size()), v});
  lst.push_back(App{ta, tb, v});
  return mk_handle(v);
}
double __sym_apply(const char* fname, double a) { return apply_n(fname, a, 0.0, 1); }
double __sym_apply2(const char* fname, double a, double b) { return apply_n(fname, a, b, 2); }
void __sym_axiom_monotone(const char* fname, int strict) { (*app_mono)[fname] = strict; use_axiom((std::string("user function ") + fname + (strict ? " strictly increasing" : " non-decreasing")).c_str()); }

// ---- symbolic differentiation of the recorded DAG (REAL mode) ----
static Term dexpr(const z3::expr& e, const z3::expr& var, std::map<unsigned, Term>& memo);
static Term dterm(const Term& t, const z3::expr& var, std::map<unsigned, Term>& memo) {
  if (tzero(t) || t.nf.empty()) { if (t.df.empty()) return tconst(0); }
  // value = N / D with N = c*prod(nf), D = prod(df):  (N' D - N D') / D^2
  Term N{t.c, t.nf, {}}, D{ctx->real_val(1), {}, {}}; for (auto& d : t.df) D.nf.push_back(d.f);
  Term dn = tconst(0);
  for (size_t i = 0; i < t.nf.size(); i++) { Term x = dexpr(t.nf[i], var, memo); Term rest{t.c, {}, {}}; for (size_t j = 0; j < t.nf.size(); j++) if (j != i) rest.nf.push_back(t.nf[j]); dn = tadd(dn, tmul(x, rest), false); }
  if (t.df.empty()) return dn;
  Term dd = tconst(0);
  for (size_t i = 0; i < t.df.size(); i++) { Term x = dexpr(t.df[i].f, var, memo); Term rest{ctx->real_val(1), {}, {}}; for (size_t j = 0; j < t.df.size(); j++) if (j != i) rest.nf.push_back(t.df[j].f); dd = tadd(dd, tmul(x, rest), false); }
  Term invD2{ctx->real_val(1), {}, {}}; for (auto& d : t.df) { invD2.df.push_back(d); invD2.df.push_back(d); }
  return tmul(tadd(tmul(dn, D), tmul(N, dd), true), invD2);
}
static Term find_app_arg(const std::string& cname, std::string& fn, bool& found) {
  size_t p = cname.find('!'); found = false;
  if (p == std::string::npos) return tconst(0);
  fn = cname.substr(0, p); int idx = atoi(cname.c_str() + p + 1);
  auto it = tapps->find(fn); if (it == tapps->end() || idx >= (int)it->second.size()) return tconst(0);
  found = true; return it->second[idx].arg;
}
static Term dexpr(const z3::expr& e, const z3::expr& var, std::map<unsigned, Term>& memo) {
  auto it = memo.find(e.id()); if (it != memo.end()) return it->second;
  Term r = tconst(0);
  if (e.is_numeral()) r = tconst(0);
  else if (e.is_const()) {
    if (z3::eq(e, var)) r = tconst(1);
    else {
      std::string fn; bool found; Term arg = find_app_arg(e.decl().name().str(), fn, found);
      if (found) {
        Term da = dterm(arg, var, memo);
        Term val = texpr(e), one = tconst(1);
        if (tzero(da)) r = tconst(0);
        else if (fn == "exp") r = tmul(val, da);
        else if (fn == "log") r = tdiv(da, arg);
        else if (fn == "tanh") r = tmul(tadd(one, tmul(val, val), true), da);
        else if (fn == "atanh") r = tdiv(da, tadd(one, tmul(arg, arg), true));
        else if (fn == "tan") r = tmul(tadd(one, tmul(val, val), false), da);
        else if (fn == "atan") r = tdiv(da, tadd(one, tmul(arg, arg), false));
        else if (fn == "sqrt") r = tdiv(da, tmul(tconst(2), val));
        else if (fn == "cosh") { double th = 0; auto& l = (*tapps)["tanh"]; bool ok = false; for (auto& ap : l) if (same_arg(ap.arg, arg)) { th = ap.h; ok = true; } if (!ok) path_exit(3, "diff: cosh without tanh");
          r = tmul(tmul(val, T(th)), da); }   // cosh' = sinh = cosh*tanh
        else path_exit(3, "diff: unsupported function");
      }
    }
  } else if (e.is_app()) {
    Z3_decl_kind k = e.decl().decl_kind(); unsigned na = e.num_args();
    if (k == Z3_OP_ADD) { for (unsigned i = 0; i < na; i++) r = tadd(r, dexpr(e.arg(i), var, memo), false); }
    else if (k == Z3_OP_SUB) { r = dexpr(e.arg(0), var, memo); for (unsigned i = 1; i < na; i++) r = tadd(r, dexpr(e.arg(i), var, memo), true); }
    else if (k == Z3_OP_UMINUS) r = tneg(dexpr(e.arg(0), var, memo));
    else if (k == Z3_OP_MUL) { for (unsigned i = 0; i < na; i++) { Term t = dexpr(e.arg(i), var, memo); if (tzero(t)) continue; for (unsigned j = 0; j < na; j++) if (j != i) t = tmul(t, texpr(e.arg(j))); r = tadd(r, t, false); } }
    else if (k == Z3_OP_POWER) { if (!e.arg(1).is_numeral()) path_exit(3, "diff: symbolic exponent"); int p = atoi(numstr(e.arg(1)).c_str());
      z3::expr b = e.arg(0); Term t = dexpr(b, var, memo); Term bp = tconst(p); for (int i = 0; i < p - 1; i++) bp = tmul(bp, texpr(b)); r = tmul(bp, t); }
    else if (k == Z3_OP_DIV) { Term N = texpr(e.arg(0)), D = texpr(e.arg(1)); Term dn = dexpr(e.arg(0), var, memo), dd = dexpr(e.arg(1), var, memo);
      r = tdiv(tadd(tmul(dn, D), tmul(N, dd), true), tmul(D, D)); }
    else if (k == Z3_OP_TO_REAL) r = tconst(0);
    else path_exit(3, "diff: unsupported term kind");
  } else path_exit(3, "diff: unsupported expression");
  memo.insert({e.id(), r});
  return r;
}
double __sym_diff(double h, double var) {
  if (mode != REAL) path_exit(3, "diff only in REAL mode");
  if (!is_sym(var)) path_exit(3, "diff: variable is not symbolic");
  Term tv = T(var); if (!is_one(tv.c) || tv.nf.size() != 1 || !tv.df.empty() || !tv.nf[0].is_const()) path_exit(3, "diff: variable is not a plain input");
  if (!is_sym(h)) return 0.0;
  std::map<unsigned, Term> memo;
  return mk_handleT(dterm(T(h), tv.nf[0], memo));
}
void verif_harness(void);
}

static void on_terminate() { path_exit(3, "uncaught C++ exception / std::terminate"); }
static void on_abort_sig(int sig) {
  // a crash of the code under test (SIGSEGV, abort from a libstdc++ assertion, ...) on this path
  static volatile int once = 0; if (once) _exit(99); once = 1;
  __sync_fetch_and_add(&sh->paths_crash, 1);
  std::string m = std::string("signal ") + std::to_string(sig) + " (crash / library assertion) on this path";
  emit("CRASH", m.c_str(), sig == SIGABRT);
  if (detached) __sync_sub_and_fetch(&sh->active, 1);
  int st; while (wait(&st) > 0) { if (!WIFEXITED(st) || WEXITSTATUS(st) != 0) note_crash(st); }
  _exit(0);
}

int main(int argc, char** argv) {
  const char* m = getenv("SYM_MODE"); if (m && !strcmp(m, "fp")) mode = FP;
  if (getenv("SYM_TIMEOUT_MS")) timeout_ms = atoi(getenv("SYM_TIMEOUT_MS"));
  if (getenv("SYM_UNKNOWN_ABORT")) unknown_both = false;
  if (getenv("SYM_TRACE_FORKS")) trace_forks = true;
  if (getenv("SYM_ABS_NOFORK")) abs_nofork = true;
  if (getenv("SYM_DIV0_PRUNE")) div0_prune = true;
  if (getenv("SYM_LOG_ATOMS")) log_atoms = true;
  if (const char* o = getenv("SYM_OUT")) { outfd = open(o, O_WRONLY | O_CREAT | O_APPEND, 0644); if (outfd < 0) { perror("SYM_OUT"); return 2; } }
  sh = (Shared*)mmap(0, sizeof(Shared), PROT_READ | PROT_WRITE, MAP_SHARED | MAP_ANONYMOUS, -1, 0);
  memset(sh, 0, sizeof(Shared)); sh->maxprocs = getenv("SYM_PROCS") ? atoi(getenv("SYM_PROCS")) : 1;
  if (getenv("SYM_BUDGET_S")) sh->deadline = now_s() + atof(getenv("SYM_BUDGET_S"));
  ctx = new z3::context();
  if (getenv("SYM_INC_TIMEOUT_MS")) inc_timeout_ms = atoi(getenv("SYM_INC_TIMEOUT_MS"));
  slv = new z3::solver(*ctx); nl_memo = new std::map<unsigned, bool>(); decided = new std::map<unsigned, bool>(); keep = new std::vector<z3::expr>(); ustream = new std::vector<double>(); if (getenv("SYM_MAX_DRAWS")) umax_draws = atoi(getenv("SYM_MAX_DRAWS")); posvars = new std::set<unsigned>(); poskeep = new std::vector<z3::expr>(); sign_memo = new std::map<unsigned, int>();
  terms = new std::vector<Term>(); somp = new z3::params(*ctx); somp->set("som", true); somp->set("som_blowup", 100000u); somp->set("expand_power", true); somp->set("arith_lhs", true);
  inputs = new std::vector<std::pair<std::string, z3::expr>>(); choices = new std::vector<std::string>(); axioms_used = new std::vector<std::string>();
  ufs = new std::map<std::string, z3::func_decl>(); tapps = new std::map<std::string, std::vector<TApp>>(); sqrt_of = new std::map<std::string, Term>();
  apps = new std::map<std::string, std::vector<App>>(); app_mono = new std::map<std::string, int>();
  dsort = new z3::sort(mode == REAL ? ctx->real_sort() : ctx->fpa_sort(11, 53));
  if (mode == FP) ctx->set_rounding_mode(z3::RNE);
  if (mode == REAL) nls = new z3::solver(z3::tactic(*ctx, "qfnra-nlsat").mk_solver());
  std::set_terminate(on_terminate);
  double t0 = now_s();
  pid_t pid = fork();
  if (pid == 0) {
    signal(SIGALRM, on_alarm); arm_timer();
    signal(SIGSEGV, on_abort_sig); signal(SIGABRT, on_abort_sig); signal(SIGFPE, on_abort_sig); signal(SIGBUS, on_abort_sig); signal(SIGILL, on_abort_sig);
    if (getenv("SYM_PATH_CPU_S")) { /* watchdog per process for termination claims */ }
    verif_harness(); path_exit(0, "");
  }
  int st; waitpid(pid, &st, 0);
  double wall = now_s() - t0;
  if (!WIFEXITED(st) || WEXITSTATUS(st) != 0) note_crash(st);
  printf("SUMMARY {\"mode\":\"%s\",\"paths_ok\":%ld,\"fail\":%ld,\"pruned\":%ld,\"abort\":%ld,\"cut\":%ld,\"crash\":%ld,\"forks\":%ld,\"solver_calls\":%ld,\"q_sat\":%ld,\"q_unsat\":%ld,\"by_norm\":%ld,\"asserts\":%ld,\"solver_s\":%.3f,\"unknown\":%ld,\"fresh_solved\":%ld,\"maxdepth\":%ld,\"div0_pruned\":%ld,\"formatted_symbolic\":%ld,\"wall_s\":%.3f}\n", mode == REAL ? "real" : "fp",
         sh->paths_ok, sh->paths_fail, sh->paths_pruned, sh->paths_abort, sh->paths_cut, sh->paths_crash, sh->forks, sh->solver_calls, sh->q_sat, sh->q_unsat, sh->by_norm, sh->asserts, sh->solver_s, sh->unknowns, sh->fresh_solved, sh->maxdepth, sh->div0_pruned, sh->formatted_sym, wall);
  return 0;
}
