// Harness-side API of the symbolic-double runtime (engine S).
// The same header serves the symbolic build (symrt.cpp, linked with the instrumented library)
// and the native replay build (replayrt.cpp, linked with an ordinary g++ build of /repo/src).
#pragma once
#ifdef __cplusplus
extern "C" {
#endif
double __sym_new_double(const char* name);               // fresh solver variable (real / Float64)
int    __sym_choose(const char* name, int lo, int hi);   // finitised discrete input: fork over lo..hi inclusive
void   __sym_fail(const char* msg);                      // property violated on this path
void   __sym_prune(void);                                // assumption violated: drop path silently
void   __sym_check(int cond, const char* msg);           // counted assertion
int    __sym_eq(double a, double b);                     // exact equality (symbolic); tolerance in native replay
int    __sym_eq_tol(double a, double b, double tol);     // |a-b|<=tol (symbolic exact arithmetic); tol widened natively
double __sym_apply(const char* fname, double x);         // uninterpreted function R->R (Ackermannised)
double __sym_apply2(const char* fname, double x, double y);
void   __sym_axiom_monotone(const char* fname, int strict); // declare an uninterpreted function (non)strictly increasing
double __sym_diff(double h, double var);                 // d h / d var of the recorded term DAG (REAL mode)
int    __sym_is_symbolic(double d);
void   __sym_note(const char* msg);
void   __sym_label(const char* msg);                     // appended to the configuration key of this path
double __sym_new_positive(const char* name);             // fresh solver variable with x > 0, registered for syntactic sign reasoning (sums/products/quotients of positives are positive without a solver call)
double __sym_uniform01(void);                            // next value of the symbolic uniform stream: fresh u_k in [0,1) (same u_k again after a rewind)
void   __sym_uniform_rewind(void);                       // restart the symbolic uniform stream: the next draws are u_0, u_1, ... again ("the same random stream")
int    __sym_uniform_count(void);                        // number of draws since the last rewind
void   __sym_watchdog(double cpu_seconds, const char* msg); // termination claim: this path must finish within the CPU time (0 disarms); otherwise it FAILs
double __sym_concretize(double d);                       // model value of a term on this path (used only for reporting)
#ifdef __cplusplus
}
#define SYM_ASSERT(c, msg) __sym_check((c) ? 1 : 0, msg)
#define SYM_ASSERT_EQ(a, b, msg) __sym_check(__sym_eq((a), (b)), msg)
#define SYM_ASSUME(c) do { if (!(c)) __sym_prune(); } while (0)
#include <string>
static inline double symd(const std::string& n) { return __sym_new_double(n.c_str()); }
static inline double sympos(const std::string& n) { return __sym_new_positive(n.c_str()); }
#endif
