// LLVM 14 new-PM plugin: redirect every double-precision FP operation to the
// symbolic runtime (__sym_*).  Prototype.
#include "llvm/IR/PassManager.h"
#include "llvm/Passes/PassBuilder.h"
#include "llvm/Passes/PassPlugin.h"
#include "llvm/IR/IRBuilder.h"
#include "llvm/IR/InstIterator.h"
#include "llvm/IR/IntrinsicInst.h"
#include "llvm/Support/raw_ostream.h"
#include <map>
#include <set>
using namespace llvm;

namespace {
static const char* unaryFns[] = {"exp","log","sqrt","fabs","tanh","atanh","tan","atan","cosh","sinh","cos","sin",
  "floor","ceil","lgamma","log10","log1p","expm1","exp2","log2","round","trunc","rint","nearbyint","tgamma","erf","erfc","asin","acos", nullptr};
static const char* binaryFns[] = {"pow","fmod","atan2","fmin","fmax","copysign","hypot", nullptr};

struct SymFP : PassInfoMixin<SymFP> {
  PreservedAnalyses run(Module &M, ModuleAnalysisManager &) {
    LLVMContext &C = M.getContext();
    Type *D = Type::getDoubleTy(C), *I32 = Type::getInt32Ty(C), *I64 = Type::getInt64Ty(C), *I1 = Type::getInt1Ty(C);
    Type *I8P = Type::getInt8PtrTy(C);
    auto fBin  = M.getOrInsertFunction("__sym_bin", FunctionType::get(D, {I32, D, D}, false));
    auto fNeg  = M.getOrInsertFunction("__sym_neg", FunctionType::get(D, {D}, false));
    auto fCmp  = M.getOrInsertFunction("__sym_fcmp", FunctionType::get(I32, {I32, D, D}, false));
    auto fToI  = M.getOrInsertFunction("__sym_fptoi", FunctionType::get(I64, {D, I32, I32}, false));
    auto fConc = M.getOrInsertFunction("__sym_concrete", FunctionType::get(D, {D, I8P}, false));
    auto fUn   = M.getOrInsertFunction("__sym_un", FunctionType::get(D, {I8P, D}, false));
    auto fBi   = M.getOrInsertFunction("__sym_bi", FunctionType::get(D, {I8P, D, D}, false));
    auto fTer  = M.getOrInsertFunction("__sym_fma", FunctionType::get(D, {D, D, D}, false));
    auto fExt  = M.getOrInsertFunction("__sym_ext_arg", FunctionType::get(D, {D, I8P}, false));
    std::set<std::string> extSeen;
    std::set<std::string> un, bi;
    for (auto p = unaryFns; *p; ++p) un.insert(*p);
    for (auto p = binaryFns; *p; ++p) bi.insert(*p);
    unsigned nrew = 0;
    std::vector<std::string> problems;
    for (Function &F : M) {
      if (F.isDeclaration()) continue;
      if (F.getName().startswith("__sym_")) continue;
      if (F.hasFnAttribute("symfp-skip")) continue;
      std::vector<Instruction*> work;
      for (Instruction &I : instructions(F)) work.push_back(&I);
      for (Instruction *I : work) {
        IRBuilder<> B(I);
        auto strc = [&](StringRef s) { return B.CreateGlobalStringPtr(s); };
        Value *R = nullptr;
        if (auto *BO = dyn_cast<BinaryOperator>(I)) {
          if (!BO->getType()->isFloatingPointTy() && !BO->getType()->isVectorTy()) continue;
          if (BO->getType()->isVectorTy()) { if (BO->getType()->getScalarType()->isFloatingPointTy()) problems.push_back(("vector FP op in " + F.getName()).str()); continue; }
          if (!BO->getType()->isDoubleTy()) { continue; }
          R = B.CreateCall(fBin, {ConstantInt::get(I32, BO->getOpcode()), BO->getOperand(0), BO->getOperand(1)});
        } else if (auto *UO = dyn_cast<UnaryOperator>(I)) {
          if (UO->getOpcode() == Instruction::FNeg && UO->getType()->isDoubleTy())
            R = B.CreateCall(fNeg, {UO->getOperand(0)});
        } else if (auto *FC = dyn_cast<FCmpInst>(I)) {
          if (FC->getOperand(0)->getType()->isDoubleTy()) {
            Value *r = B.CreateCall(fCmp, {ConstantInt::get(I32, FC->getPredicate()), FC->getOperand(0), FC->getOperand(1)});
            R = B.CreateICmpNE(r, ConstantInt::get(I32, 0));
          } else if (FC->getOperand(0)->getType()->isVectorTy()) problems.push_back(("vector fcmp in " + F.getName()).str());
        } else if (isa<FPToSIInst>(I) || isa<FPToUIInst>(I)) {
          if (I->getOperand(0)->getType()->isDoubleTy() && I->getType()->isIntegerTy()) {
            unsigned bits = I->getType()->getIntegerBitWidth();
            Value *r = B.CreateCall(fToI, {I->getOperand(0), ConstantInt::get(I32, isa<FPToSIInst>(I)), ConstantInt::get(I32, bits)});
            R = B.CreateTruncOrBitCast(r, I->getType());
          }
        } else if (isa<FPTruncInst>(I) || isa<FPExtInst>(I)) {
          if (I->getOperand(0)->getType()->isDoubleTy()) {
            Value *r = B.CreateCall(fConc, {I->getOperand(0), strc("fptrunc/fpext")});
            I->setOperand(0, r);
          }
        } else if (auto *BC = dyn_cast<BitCastInst>(I)) {
          if (BC->getOperand(0)->getType()->isDoubleTy() && BC->getType()->isIntegerTy()) {
            Value *r = B.CreateCall(fConc, {BC->getOperand(0), strc("bitcast double->int")});
            I->setOperand(0, r);
          }
        } else if (auto *CB = dyn_cast<CallBase>(I)) {
          Function *Cal = CB->getCalledFunction();
          if (!Cal) continue;
          StringRef N = Cal->getName();
          std::string base;
          if (N.startswith("llvm.") ) {
            if (!N.endswith(".f64")) { continue; }
            base = N.substr(5, N.size() - 5 - 4).str();
            if (base == "fmuladd" || base == "fma") {
              R = B.CreateCall(fTer, {CB->getArgOperand(0), CB->getArgOperand(1), CB->getArgOperand(2)});
            } else if (base == "maxnum") base = "fmax"; else if (base == "minnum") base = "fmin";
          } else if (Cal->isDeclaration()) base = N.str(); else continue;
          if (!R) {
            if (un.count(base) && CB->arg_size() == 1 && CB->getArgOperand(0)->getType()->isDoubleTy())
              R = B.CreateCall(fUn, {strc(base), CB->getArgOperand(0)});
            else if (bi.count(base) && CB->arg_size() == 2 && CB->getArgOperand(0)->getType()->isDoubleTy() && CB->getArgOperand(1)->getType()->isDoubleTy())
              R = B.CreateCall(fBi, {strc(base), CB->getArgOperand(0), CB->getArgOperand(1)});
            else if (base == "powi" ) problems.push_back(("powi in " + F.getName()).str());
            else if (Cal->isDeclaration() && !N.startswith("llvm.") && !N.startswith("__sym_") &&
                     (!N.startswith("_Z") || N.startswith("_ZNS") || N.startswith("_ZNKS") || N.startswith("_ZSt"))) {   // C library or namespace std (functions of the library's other units are instrumented themselves)
              // a double handed to a function outside the instrumented code (text formatting, libm entry points without a model): the runtime is told,
              // so that a symbolic value arriving there is counted (formatting) or ends the path as unsupported (everything else) instead of being used as a NaN
              for (unsigned a = 0; a < CB->arg_size(); a++) if (CB->getArgOperand(a)->getType()->isDoubleTy()) {
                Value *w = B.CreateCall(fExt, {CB->getArgOperand(a), strc(N)}); CB->setArgOperand(a, w); extSeen.insert(N.str()); }
            }
          }
          if (R && isa<InvokeInst>(CB)) {
            // math functions do not throw: branch to the normal destination
            auto *II = cast<InvokeInst>(CB);
            BranchInst::Create(II->getNormalDest(), II);
            II->getUnwindDest()->removePredecessor(II->getParent());
          }
        }
        if (R) { I->replaceAllUsesWith(R); I->eraseFromParent(); ++nrew; }
      }
    }
    errs() << "symfp: rewrote " << nrew << " instructions\n";
    for (auto &p : problems) errs() << "symfp: PROBLEM " << p << "\n";
    if (getenv("SYMFP_LIST_EXT")) for (auto &p : extSeen) errs() << "symfp: EXT " << p << "\n";
    return PreservedAnalyses::none();
  }
};
}

extern "C" LLVM_ATTRIBUTE_WEAK ::llvm::PassPluginLibraryInfo llvmGetPassPluginInfo() {
  return {LLVM_PLUGIN_API_VERSION, "SymFP", "0.1", [](PassBuilder &PB) {
    PB.registerPipelineParsingCallback([](StringRef Name, ModulePassManager &MPM, ArrayRef<PassBuilder::PipelineElement>) {
      if (Name == "symfp") { MPM.addPass(SymFP()); return true; }
      return false;
    });
  }};
}
