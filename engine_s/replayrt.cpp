// Native replay runtime: same harness API as symrt.cpp, but every "symbolic" input takes the concrete
// value of a solver model (file $SYM_REPLAY_FILE: lines "choice <name>=<int>" / "double <name>=<value>").
// Linked with an ordinary (uninstrumented) g++ build of /repo/src, so a reported counterexample is
// re-evaluated against the real code.  Exit: 0 property held, 1 assertion failed (reproduced),
// 2 assumption not met by the rounded model, 3 replay not possible.
#include <cstdio>
#include <cstdlib>
#include <cstring>
#include <cmath>
#include <string>
#include <map>
#include <vector>
#include <exception>
#include <signal.h>
#include <sys/time.h>
#include <unistd.h>
#include "symrt.h"

static std::map<std::string, int> g_choice;
static std::map<std::string, double> g_double;
static std::map<std::string, std::vector<std::pair<std::pair<double, double>, double>>> g_apps;
static double g_tol = 1e-9;

static double parse_value(const std::string& s0) {
  std::string s = s0;
  while (!s.empty() && (s.back() == '?' || s.back() == '\n' || s.back() == ' ')) s.pop_back();
  size_t sl = s.find('/');
  if (sl != std::string::npos) return strtod(s.substr(0, sl).c_str(), 0) / strtod(s.substr(sl + 1).c_str(), 0);
  return strtod(s.c_str(), 0);   // handles decimal and %a hex
}
static void load() {
  const char* fn = getenv("SYM_REPLAY_FILE");
  if (!fn) { fprintf(stderr, "SYM_REPLAY_FILE not set\n"); exit(3); }
  FILE* f = fopen(fn, "r"); if (!f) { perror(fn); exit(3); }
  char buf[4096];
  while (fgets(buf, sizeof buf, f)) {
    std::string l(buf); while (!l.empty() && (l.back() == '\n' || l.back() == '\r')) l.pop_back();
    size_t sp = l.find(' '), eq = l.rfind('=');
    if (sp == std::string::npos || eq == std::string::npos || eq < sp) continue;
    std::string kind = l.substr(0, sp), name = l.substr(sp + 1, eq - sp - 1), val = l.substr(eq + 1);
    if (kind == "choice") g_choice[name] = atoi(val.c_str());
    else if (kind == "double") g_double[name] = parse_value(val);
    else if (kind == "tol") g_tol = atof(val.c_str());
  }
  fclose(f);
}
static bool loaded = false;
static void ensure() { if (!loaded) { loaded = true; load(); } }

extern "C" {
double __sym_new_double(const char* name) {
  ensure(); auto it = g_double.find(name);
  if (it == g_double.end()) { printf("REPLAY-NOTE input %s not in model, using 0\n", name); return 0.0; }
  return it->second;
}
double __sym_new_positive(const char* name) { double v = __sym_new_double(name); if (!(v > 0)) __sym_prune(); return v; }
int __sym_choose(const char* name, int lo, int hi) {
  ensure(); auto it = g_choice.find(name);
  if (it == g_choice.end()) { printf("REPLAY-DIVERGED choice %s not recorded\n", name); exit(3); }
  return it->second;
}
void __sym_prune(void);
void __sym_fail(const char* msg) { printf("REPLAY-FAIL %s\n", msg); fflush(stdout); _Exit(1); }
void __sym_prune(void) { printf("REPLAY-PRUNED\n"); fflush(stdout); _Exit(2); }
void __sym_check(int cond, const char* msg) { if (!cond) __sym_fail(msg); }
static char wd_msg[200];
static void on_wd(int) { printf("REPLAY-FAIL %s\n", wd_msg); fflush(stdout); _Exit(1); }
void __sym_watchdog(double s, const char* msg) { snprintf(wd_msg, sizeof wd_msg, "%s", msg ? msg : "no termination"); struct itimerval it; memset(&it, 0, sizeof it); it.it_value.tv_sec = (long)s; it.it_value.tv_usec = (long)((s - (long)s) * 1e6); signal(SIGVTALRM, on_wd); setitimer(ITIMER_VIRTUAL, &it, 0); }
static int upos = 0;
double __sym_uniform01(void) { ensure(); std::string k = "u!" + std::to_string(upos++); auto it = g_double.find(k); if (it == g_double.end()) { printf("REPLAY-NOTE uniform draw %s not in model, using 0.5\n", k.c_str()); return 0.5; } return it->second; }
void __sym_uniform_rewind(void) { upos = 0; }
int __sym_uniform_count(void) { return upos; }
void __sym_note(const char*) {}
void __sym_label(const char*) {}
int __sym_is_symbolic(double) { return 0; }
int __sym_eq(double a, double b) {
  if (a == b) return 1;
  if (std::isnan(a) || std::isnan(b)) return 0;
  double m = fmax(1.0, fmax(fabs(a), fabs(b)));
  return fabs(a - b) <= g_tol * m;
}
int __sym_eq_tol(double a, double b, double tol) { return fabs(a - b) <= tol * (1 + 1e-6) + g_tol; }
double __sym_concretize(double d) { return d; }
static double apply_n(const char* fname, double x, double y) {
  ensure(); auto& lst = g_apps[fname];
  for (auto& ap : lst) if (ap.first.first == x && ap.first.second == y) return ap.second;
  std::string key = std::string(fname) + "!" + std::to_string(lst.size());
  auto it = g_double.find(key);
  double v = 0;
  if (it == g_double.end()) printf("REPLAY-NOTE application %s not in model, using 0\n", key.c_str()); else v = it->second;
  lst.push_back({{x, y}, v});
  return v;
}
double __sym_apply(const char* fname, double x) { return apply_n(fname, x, 0.0); }
double __sym_apply2(const char* fname, double x, double y) { return apply_n(fname, x, y); }
void __sym_axiom_monotone(const char*, int) {}
double __sym_diff(double, double) { printf("REPLAY-UNSUPPORTED __sym_diff\n"); fflush(stdout); _Exit(3); }
void verif_harness(void);
}

int main() {
  ensure();
  try { verif_harness(); }
  catch (std::exception& e) { printf("REPLAY-FAIL uncaught exception: %s\n", e.what()); return 1; }
  catch (...) { printf("REPLAY-FAIL uncaught exception\n"); return 1; }
  printf("REPLAY-PASS\n");
  return 0;
}
