// CBMC harnesses for the kernels in K_text.cpp (translated to C by ir2c).  NLEN = exact length of the byte string (all lengths 0..LMAX are run),
// every byte, option character and flag is nondeterministic.  A harness fails if CBMC finds any out-of-bounds access, invalid pointer, division by zero,
// overflow check, libstdc++ container assertion, unwinding assertion (non-termination within the bound) or an exception that is not the library's type.
#include "ir2c_rt.h"
#include <assert.h>
typedef uint64_t ul;
uint32_t k_isDecimalNumber(char* b, ul n, uint8_t dec, uint8_t sci); uint32_t k_isDecimalInteger(char* b, ul n, uint8_t sci); uint32_t k_isEmpty(char* b, ul n);
ul k_trim(char* b, ul n, uint32_t which, char* out, ul cap); ul k_case(char* b, ul n, uint32_t upper, char* out, ul cap); ul k_resize(char* b, ul n, ul newSize, uint8_t fill, uint32_t left, char* out, ul cap);
ul k_removeBlocks(char* b, ul n, uint8_t open, uint8_t close, char* out, ul cap); ul k_removeChar(char* b, ul n, uint8_t c, char* out, ul cap); ul k_split(char* b, ul n, ul chunk, char* lens, ul cap);
ul k_count(char* b, ul n, char* p, ul np); uint32_t k_startsEndsHas(char* b, ul n, char* p, ul np, uint32_t which); ul k_path(char* b, ul n, uint8_t sep, uint32_t which, char* out, ul cap);
uint32_t k_toInt(char* b, ul n, uint8_t sci, char* ok); double k_toDouble(char* b, ul n, uint8_t dec, uint8_t sci, char* ok);
uint32_t k_singleKeyval(char* b, ul n, uint8_t split, char* key, char* nkey, char* val, char* nval, ul cap);
ul nondet_u64(void); uint8_t nondet_u8(void); uint32_t nondet_u32(void);
#ifndef LMAX
#define LMAX 4
#endif
#define CAP 6
static int is_ws(uint8_t c) { return c == ' ' || (c >= 9 && c <= 13); }
static int is_digit(uint8_t c) { return c >= '0' && c <= '9'; }
#define BUF char buf[LMAX + 2]; ul n = NLEN; for (int i = 0; i < LMAX + 1; i++) buf[i] = nondet_u8();
#define NOFOREIGN assert(!__exc_pending);   /* no exception other than the library's escapes */
#ifdef WITNESS
#define END assert(0);
#else
#define END
#endif
// reference automaton of the strict decimal grammar:  [-] digits* [dec digits*] [sci [+|-] digits*]   with: at least one character after sci(+sign); at most one dec, none in the exponent
static int ref_decimal(const char* s, ul n, uint8_t dec, uint8_t sci, int integerOnly) {
  int allws = 1; for (ul k = 0; k < n; k++) if (!is_ws((uint8_t)s[k])) allws = 0; if (allws) return 0;     /* blank strings are not numbers */ ul i = 0; if ((uint8_t)s[0] == '-') i = 1; int sep = 0, sc = 0;
  for (; i < n; i++) { uint8_t c = (uint8_t)s[i];
    if (!integerOnly && c == dec) sep++;
    else if (c == sci) { sc++; if (i == n - 1) return 0; c = (uint8_t)s[i + 1]; if (integerOnly) { if (c == '-') return 0; if (c == '+') i++; } else { if (c == '-' || c == '+') i++; } if (i == n - 1) return 0; if (sep == 0) sep = 1; }
    else if (!is_digit(c)) return 0;
    if (sep > 1 || sc > 1) return 0; }
  return 1; }

void harness_recognisers(void) { __ir2c_init_globals(); BUF uint8_t dec = nondet_u8(), sci = nondet_u8();
  __CPROVER_assume(dec != sci && !is_digit(dec) && !is_digit(sci) && dec != '-' && sci != '-' && dec != '+' && sci != '+');
  uint32_t r = k_isDecimalNumber(buf, n, dec, sci); NOFOREIGN assert(r == (uint32_t)ref_decimal(buf, n, dec, sci, 0));
  uint32_t q = k_isDecimalInteger(buf, n, sci); NOFOREIGN assert(q == (uint32_t)ref_decimal(buf, n, dec, sci, 1));
  int allws = 1; for (ul i = 0; i < n; i++) if (!is_ws((uint8_t)buf[i])) allws = 0; uint32_t e = k_isEmpty(buf, n); NOFOREIGN assert(e == (uint32_t)allws); END }
void harness_toInt(void) { __ir2c_init_globals(); BUF uint8_t sci = nondet_u8(); char ok[8];
  uint32_t r = k_isDecimalInteger(buf, n, sci); NOFOREIGN k_toInt(buf, n, sci, ok); NOFOREIGN assert((ok[0] != 0) == (r != 0)); END }   /* conversion raises the library's exception iff the recogniser rejects; nothing else escapes */
void harness_toDouble(void) { __ir2c_init_globals(); BUF uint8_t dec = nondet_u8(), sci = nondet_u8(); char ok[8];
  uint32_t q = k_isDecimalNumber(buf, n, dec, sci); NOFOREIGN k_toDouble(buf, n, dec, sci, ok); NOFOREIGN assert((ok[0] != 0) == (q != 0)); END }
#ifndef WHICH
#define WHICH 0
#endif
#ifndef NS
#define NS 2
#endif
#ifndef NP
#define NP 1
#endif
void harness_trim(void) { __ir2c_init_globals(); BUF char out[CAP], out2[CAP]; uint32_t which = WHICH;
  ul m = k_trim(buf, n, which, out, CAP); NOFOREIGN assert(m <= n);
  if (which == 0) { if (m > 0) { assert(!is_ws((uint8_t)out[0])); assert(!is_ws((uint8_t)out[m - 1])); } ul first = 0; while (first < n && is_ws((uint8_t)buf[first])) first++; if (first == n) assert(m == 0); else for (ul i = 0; i < m; i++) assert(out[i] == buf[first + i]); }
  if (which == 3) for (ul i = 0; i < m; i++) assert(!is_ws((uint8_t)out[i]));
  END }
void harness_trim_idempotent(void) { __ir2c_init_globals(); BUF char out[CAP], out2[CAP]; uint32_t which = WHICH;
  ul m = k_trim(buf, n, which, out, CAP); NOFOREIGN __CPROVER_assume(m <= n); ul m2 = k_trim(out, m, which, out2, CAP); NOFOREIGN assert(m2 == m); for (ul i = 0; i < m; i++) assert(out2[i] == out[i]); END }
void harness_case(void) { __ir2c_init_globals(); BUF char out[CAP]; uint32_t up = WHICH; ul m = k_case(buf, n, up, out, CAP); NOFOREIGN assert(m == n); END }
void harness_resize(void) { __ir2c_init_globals(); BUF char out[CAP];
  ul ns = NS; uint8_t fill = nondet_u8(); uint32_t left = WHICH; ul r = k_resize(buf, n, ns, fill, left, out, CAP); NOFOREIGN assert(r == ns);
  if (!left) for (ul i = 0; i < ns; i++) assert(out[i] == (i < n ? buf[i] : (char)fill)); else for (ul i = 0; i < ns; i++) assert(out[ns - 1 - i] == (i < n ? buf[n - 1 - i] : (char)fill)); END }
void harness_blocks(void) { __ir2c_init_globals(); BUF char out[CAP]; uint8_t o = nondet_u8(), c = nondet_u8(); ul m = k_removeBlocks(buf, n, o, c, out, CAP); NOFOREIGN assert(m == (ul)-1 || m <= n); END }
void harness_removeChar(void) { __ir2c_init_globals(); BUF char out[CAP];
  uint8_t rc = nondet_u8(); ul k = k_removeChar(buf, n, rc, out, CAP); NOFOREIGN assert(k <= n); for (ul i = 0; i < k; i++) assert((uint8_t)out[i] != rc); END }
void harness_split(void) { __ir2c_init_globals(); BUF ul lens[CAP]; ul chunk = NS;
  ul k = k_split(buf, n, chunk, (char*)lens, CAP); NOFOREIGN if (k != (ul)-1) { ul tot = 0; for (ul i = 0; i < k && i < CAP; i++) { assert(lens[i] <= chunk); assert(lens[i] > 0); tot += lens[i]; } assert(tot == n); } END }
void harness_search(void) { __ir2c_init_globals(); BUF char pat[3]; pat[0] = nondet_u8(); pat[1] = nondet_u8(); pat[2] = 0; ul np = NP;
  uint32_t w = WHICH; if (w == 3) { ul cnt = k_count(buf, n, pat, np); NOFOREIGN assert(cnt == (ul)-1 || cnt <= n + 1); return; } uint32_t r = k_startsEndsHas(buf, n, pat, np, w); NOFOREIGN
  if (w == 0 && np <= n) { int eq = 1; for (ul i = 0; i < np; i++) if (buf[i] != pat[i]) eq = 0; assert(r == (uint32_t)eq); } if (w == 1 && np <= n) { int eq = 1; for (ul i = 0; i < np; i++) if (buf[n - np + i] != pat[i]) eq = 0; assert(r == (uint32_t)eq); }
  if (np > n) assert(r == 0); END }
void harness_path(void) { __ir2c_init_globals(); BUF char out[CAP]; uint8_t sep = nondet_u8(); uint32_t w = WHICH; ul m = k_path(buf, n, sep, w, out, CAP); NOFOREIGN assert(m == (ul)-1 || m <= n); END }

// key = value splitting: accepted iff the separator occurs; key is the text before its first occurrence, value the text after it (so key + separator + value gives the input back)
void harness_keyval(void) { __ir2c_init_globals(); BUF char key[CAP], val[CAP]; ul nk = 0, nv = 0; uint8_t sp = nondet_u8();
  uint32_t ok = k_singleKeyval(buf, n, sp, key, (char*)&nk, val, (char*)&nv, CAP); NOFOREIGN
  ul first = n; for (ul i = 0; i < n; i++) if (first == n && (uint8_t)buf[i] == sp) first = i;
  assert((ok != 0) == (first < n));
  if (ok) { assert(nk == first && nv == n - first - 1); for (ul i = 0; i < nk; i++) assert(key[i] == buf[i]); for (ul i = 0; i < nv; i++) assert(val[i] == buf[first + 1 + i]); } END }
