// Engine K kernels: extern "C" wrappers around the real string utilities (compiled together with the real .cpp units, lowered to C, model checked by CBMC).
// Each wrapper builds the std::string arguments from a byte buffer, calls the library and maps "the library's exception type" to a return code;
// any other exception escapes the wrapper and is flagged by the harness.  Results are copied to caller buffers so that post-conditions can be stated in C.
#include <Bpp/Text/TextTools.h>
#include <Bpp/Io/FileTools.h>
#include <Bpp/Exceptions.h>
#include <Bpp/Text/KeyvalTools.h>
#include <string>
#include <vector>
using namespace bpp;
typedef unsigned long ul;
static ul put(const std::string& r, char* out, ul cap) { ul m = r.size() < cap ? r.size() : cap; for (ul i = 0; i < m; i++) out[i] = r[i]; return r.size(); }
#define LIBTRY try {
#define LIBCATCH } catch (bpp::Exception&) { return (ul)-1; }
extern "C" {
int k_isDecimalNumber(const char* b, ul n, char dec, char sci) { std::string s(b, n); return TextTools::isDecimalNumber(s, dec, sci) ? 1 : 0; }
int k_isDecimalInteger(const char* b, ul n, char sci) { std::string s(b, n); return TextTools::isDecimalInteger(s, sci) ? 1 : 0; }
int k_isEmpty(const char* b, ul n) { std::string s(b, n); return TextTools::isEmpty(s) ? 1 : 0; }
ul k_trim(const char* b, ul n, int which, char* out, ul cap) { std::string s(b, n); LIBTRY
  std::string r = which == 0 ? TextTools::removeSurroundingWhiteSpaces(s) : which == 1 ? TextTools::removeFirstWhiteSpaces(s) : which == 2 ? TextTools::removeLastWhiteSpaces(s) : which == 3 ? TextTools::removeWhiteSpaces(s) : which == 4 ? TextTools::removeNewLines(s) : TextTools::removeLastNewLines(s);
  return put(r, out, cap); LIBCATCH }
ul k_case(const char* b, ul n, int upper, char* out, ul cap) { std::string s(b, n); LIBTRY return put(upper ? TextTools::toUpper(s) : TextTools::toLower(s), out, cap); LIBCATCH }
ul k_resize(const char* b, ul n, ul newSize, char fill, int left, char* out, ul cap) { std::string s(b, n); LIBTRY return put(left ? TextTools::resizeLeft(s, newSize, fill) : TextTools::resizeRight(s, newSize, fill), out, cap); LIBCATCH }
ul k_removeBlocks(const char* b, ul n, char open, char close, char* out, ul cap) { std::string s(b, n); LIBTRY return put(TextTools::removeSubstrings(s, open, close), out, cap); LIBCATCH }
ul k_removeChar(const char* b, ul n, char c, char* out, ul cap) { std::string s(b, n); LIBTRY return put(TextTools::removeChar(s, c), out, cap); LIBCATCH }
ul k_split(const char* b, ul n, ul chunk, ul* lens, ul cap) { std::string s(b, n); LIBTRY std::vector<std::string> v = TextTools::split(s, chunk); for (ul i = 0; i < v.size() && i < cap; i++) lens[i] = v[i].size(); return v.size(); LIBCATCH }
ul k_count(const char* b, ul n, const char* p, ul np) { std::string s(b, n), pat(p, np); LIBTRY return TextTools::count(s, pat); LIBCATCH }
int k_startsEndsHas(const char* b, ul n, const char* p, ul np, int which) { std::string s(b, n), pat(p, np); try { return (which == 0 ? TextTools::startsWith(s, pat) : which == 1 ? TextTools::endsWith(s, pat) : TextTools::hasSubstring(s, pat)) ? 1 : 0; } catch (bpp::Exception&) { return -1; } }
ul k_path(const char* b, ul n, char sep, int which, char* out, ul cap) { std::string s(b, n); LIBTRY return put(which == 0 ? FileTools::getFileName(s, sep) : which == 1 ? FileTools::getParent(s, sep) : FileTools::getExtension(s), out, cap); LIBCATCH }
int k_toInt(const char* b, ul n, char sci, int* ok) { std::string s(b, n); *ok = 0; try { int v = TextTools::toInt(s, sci); *ok = 1; return v; } catch (bpp::Exception&) { return 0; } }
// single key-value splitting at the first occurrence of a one-character separator: returns 1 and copies key / value, or 0 when the library raises its exception
int k_singleKeyval(const char* b, ul n, char split, char* key, ul* nkey, char* val, ul* nval, ul cap) { std::string s(b, n), sp(1, split), k, v; try { KeyvalTools::singleKeyval(s, k, v, sp); *nkey = put(k, key, cap); *nval = put(v, val, cap); return 1; } catch (bpp::Exception&) { return 0; } }
double k_toDouble(const char* b, ul n, char dec, char sci, int* ok) { std::string s(b, n); *ok = 0; try { double v = TextTools::toDouble(s, dec, sci); *ok = 1; return v; } catch (bpp::Exception&) { return 0; } }
}
