#!/usr/bin/env python3
"""Regenerates MANIFEST.json from props/*.py (claimed checks) and NOT_APPLICABLE below."""
import json, os, importlib, sys
sys.path.insert(0, os.path.dirname(os.path.abspath(__file__)))
ALL = ["C%02d" % i for i in range(1, 21)]
NOT_APPLICABLE = {
    "C14": "graph/association views: the quantifier is over histories of operations on node-based associative containers; engine S only makes doubles symbolic and CBMC (engine K, measured) returns no verdict once a container size depends on symbolic data; enumerating histories concretely would be a different technique (DESIGN.md section 3)",
    "C15": "tree/DAG queries: same containers and same reason as C14 (quantifier over tree shapes and edit histories, no numeric inputs)",
}
PENDING = "check not built yet in this session (see DESIGN.md for the planned encoding)"
checks, na = [], []
for pid in ALL:
    if pid in NOT_APPLICABLE:
        na.append(dict(property_id=pid, reason=NOT_APPLICABLE[pid])); continue
    if not os.path.exists(os.path.join("props", pid + ".py")):
        na.append(dict(property_id=pid, reason=PENDING)); continue
    m = importlib.import_module("props." + pid)
    if getattr(m, "DISABLED", False):
        na.append(dict(property_id=pid, reason=m.DISABLED)); continue
    checks.append(dict(property_id=pid, quick_cmd="./check %s quick" % pid, thorough_cmd="./check %s thorough" % pid,
                       evidence_file="evidence/%s.json" % pid, replay_cmd_template="./check --replay {path}",
                       engine=getattr(m, "ENGINE", "S"),
                       level_claimed=dict(category=getattr(m, "LEVEL", "other"), text=m.LEVEL_TEXT, design_ref="DESIGN.md section 3, " + pid),
                       level_note=m.LEVEL_NOTE, technique=m.TECHNIQUE))
man = dict(version=1,
           setup_cmd="./setup.sh",
           hooks=dict(guard="BPP_CORE_VERIF", enable="checks compile /repo/src with -DBPP_CORE_VERIF (no guarded hook is currently needed: stubs are applied at LLVM-IR level)",
                      baseline_off_cmd="cmake -S /repo -B /repo/_build -G Ninja >/dev/null && cmake --build /repo/_build -j16 && ctest --test-dir /repo/_build -j8 --timeout 900",
                      source_commits=[], add_only=True),
           engines=[dict(name="S", path="engine_s", serves_properties=[c["property_id"] for c in checks if c["engine"] == "S"],
                         kind_free_text="symbolic doubles: LLVM-14 pass rewrites every double operation of the real code into calls of a z3-backed runtime; forked DFS over feasible paths; REAL (exact rational functions, QF_NRA) and FP (Float64) semantics; native replay of models"),
                    dict(name="K", path="engine_k", serves_properties=[c["property_id"] for c in checks if c["engine"] == "K"],
                         kind_free_text="leaf kernels: clang IR of the real functions -> own IR-to-C translator -> CBMC bounded model checking with unwinding assertions")],
           checks=checks, not_applicable=na,
           notes="All checks rebuild their encoding from /repo's working tree (content-hash cache under /verif/build). Exit 3 + INCONCLUSIVE line = budget/unknown, never reported as success.")
json.dump(man, open("MANIFEST.json", "w"), indent=1)
print("checks:", [c["property_id"] for c in checks], "not_applicable:", [n["property_id"] for n in na])
