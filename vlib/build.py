"""Build support for engine S: pass plugin, runtime, instrumented library (content-hash cached),
native library for replay, harness binaries.  Everything is regenerated from /repo's working tree:
the cache key is the SHA-256 of every file under /repo/src plus the engine sources, so an edit to
/repo always produces a fresh encoding."""
import hashlib, os, subprocess, sys, shutil, glob, time
from concurrent.futures import ThreadPoolExecutor

VERIF = os.path.dirname(os.path.dirname(os.path.abspath(__file__)))
REPO = os.environ.get("VERIF_REPO", "/repo")
SRC = os.path.join(REPO, "src")
BUILD = os.path.join(VERIF, "build")
ES = os.path.join(VERIF, "engine_s")
NPROC = int(os.environ.get("VERIF_JOBS", "16"))
GUARD = "BPP_CORE_VERIF"
# z3 5.1 (the z3-solver wheel pre-installed in the tooling venv) decides the nlsat queries that 4.8.12 times out on
Z3DIR = "/opt/veriftools/pyvenv/lib/python3.11/site-packages/z3"
if os.path.exists(os.path.join(Z3DIR, "lib", "libz3.so")):
    Z3INC, Z3LINK, Z3NAME = ["-I", os.path.join(Z3DIR, "include")], ["-L" + os.path.join(Z3DIR, "lib"), "-lz3", "-Wl,-rpath," + os.path.join(Z3DIR, "lib")], "z3 5.1.0 (tooling venv libz3.so)"
else:
    Z3INC, Z3LINK, Z3NAME = [], ["-lz3"], "system libz3 4.8.12"
STUBS = ["-include", os.path.join(ES, "stub_random.h")]     # environment stubs applied to every verification build (symbolic and native replay)
# -mlong-double-64: the few long double computations of the library (e.g. rcont2) become double operations, so the pass sees them (REAL mode is exact arithmetic anyway)
CXXF = STUBS + ["-mlong-double-64", "-std=c++17", "-O1", "-fno-vectorize", "-fno-slp-vectorize", "-fno-unroll-loops", "-ffp-contract=off",
        "-D_GLIBCXX_ASSERTIONS", "-D" + GUARD, "-fPIC", "-w"]


def run(cmd, **kw):
    r = subprocess.run(cmd, stdout=subprocess.PIPE, stderr=subprocess.STDOUT, text=True, **kw)
    return r.returncode, r.stdout


def must(cmd, **kw):
    rc, out = run(cmd, **kw)
    if rc != 0:
        sys.stderr.write("BUILD FAILURE: %s\n%s\n" % (" ".join(cmd), out))
        raise SystemExit(2)
    return out


def sha_files(paths):
    h = hashlib.sha256()
    for p in sorted(paths):
        h.update(p.encode()); h.update(b"\0")
        with open(p, "rb") as f:
            h.update(f.read())
        h.update(b"\0")
    return h.hexdigest()


def newer(target, srcs):
    if not os.path.exists(target):
        return True
    t = os.path.getmtime(target)
    return any(os.path.getmtime(s) > t for s in srcs)


def ensure_tools():
    os.makedirs(BUILD, exist_ok=True)
    so = os.path.join(BUILD, "SymFP.so")
    if newer(so, [os.path.join(ES, "SymFP.cpp")]):
        cfg = must(["llvm-config-14", "--cxxflags"]).split()
        must(["clang++-14", "-shared", "-fPIC"] + cfg + [os.path.join(ES, "SymFP.cpp"), "-o", so + ".tmp"])
        os.replace(so + ".tmp", so)
    rt = os.path.join(BUILD, "symrt.o")
    if newer(rt, [os.path.join(ES, "symrt.cpp"), os.path.join(ES, "symrt.h")]):
        must(["g++", "-std=c++17", "-O2", "-w", "-c", os.path.join(ES, "symrt.cpp"), "-I", ES] + Z3INC + ["-o", rt + ".tmp"])
        os.replace(rt + ".tmp", rt)
    rp = os.path.join(BUILD, "replayrt.o")
    if newer(rp, [os.path.join(ES, "replayrt.cpp"), os.path.join(ES, "symrt.h")]):
        must(["g++", "-std=c++17", "-O2", "-c", os.path.join(ES, "replayrt.cpp"), "-I", ES, "-o", rp + ".tmp"])
        os.replace(rp + ".tmp", rp)
    return so, rt, rp


def repo_sources():
    cpps = [p for p in glob.glob(os.path.join(SRC, "Bpp", "**", "*.cpp"), recursive=True) if "/Graphics/" not in p]
    return sorted(cpps)


def repo_hash():
    files = glob.glob(os.path.join(SRC, "**", "*.h"), recursive=True) + glob.glob(os.path.join(SRC, "**", "*.cpp"), recursive=True)
    eng = [os.path.join(ES, f) for f in ("SymFP.cpp", "symrt.cpp", "symrt.h", "stub_random.h")] + [os.path.abspath(__file__)]
    return sha_files(files + eng)[:20]


def cache_dir(h):
    d = os.path.join(BUILD, "cache", h)
    os.makedirs(d, exist_ok=True)
    return d


def prune_cache(keep):
    base = os.path.join(BUILD, "cache")
    if not os.path.isdir(base):
        return
    ds = sorted([os.path.join(base, d) for d in os.listdir(base)], key=os.path.getmtime, reverse=True)
    for d in ds[4:]:
        # never remove a cache another (concurrent) check may still be using: only directories untouched for two hours go
        if os.path.basename(d) != keep and time.time() - os.path.getmtime(d) > 7200:
            shutil.rmtree(d, ignore_errors=True)


def _instrument_one(args):
    f, d, so = args
    b = os.path.relpath(f, os.path.join(SRC, "Bpp")).replace("/", "_")[:-4]
    ll, bc, o = [os.path.join(d, "obj", b + e) for e in (".ll", ".bc", ".o")]
    rc, out = run(["clang++-14"] + CXXF + ["-I", SRC, "-S", "-emit-llvm", f, "-o", ll])
    if rc:
        return (f, "clang: " + out)
    rc, out = run(["opt-14", "-load-pass-plugin=" + so, "-passes=symfp", ll, "-o", bc])
    if rc or "PROBLEM" in out:
        return (f, "opt: " + out)
    rc, out2 = run(["clang++-14", "-O1", "-fPIC", "-c", bc, "-o", o])
    if rc:
        return (f, "codegen: " + out2)
    os.remove(ll); os.remove(bc)
    return (f, None)


def ensure_symlib(h=None):
    """instrumented static library of every src/Bpp/**/*.cpp (Graphics excluded)"""
    so, rt, rp = ensure_tools()
    h = h or repo_hash()
    d = cache_dir(h)
    lib = os.path.join(d, "libbppsym.a")
    if os.path.exists(lib):
        os.utime(d)
        return lib
    t0 = time.time()
    shutil.rmtree(os.path.join(d, "obj"), ignore_errors=True)
    os.makedirs(os.path.join(d, "obj"))
    srcs = repo_sources()
    with ThreadPoolExecutor(NPROC) as ex:
        res = list(ex.map(_instrument_one, [(f, d, so) for f in srcs]))
    bad = [r for r in res if r[1]]
    if bad:
        for f, e in bad:
            sys.stderr.write("INSTRUMENTATION FAILURE %s\n%s\n" % (f, e))
        raise SystemExit(2)
    objs = sorted(glob.glob(os.path.join(d, "obj", "*.o")))
    must(["ar", "rcs", lib + ".tmp"] + objs)
    os.replace(lib + ".tmp", lib)
    shutil.rmtree(os.path.join(d, "obj"), ignore_errors=True)
    with open(os.path.join(d, "symlib.info"), "w") as f:
        f.write("units=%d build_s=%.1f\n" % (len(srcs), time.time() - t0))
    prune_cache(h)
    return lib


def _native_one(args):
    f, d = args
    b = os.path.relpath(f, os.path.join(SRC, "Bpp")).replace("/", "_")[:-4]
    o = os.path.join(d, "nobj", b + ".o")
    rc, out = run(["g++"] + STUBS + ["-std=c++17", "-O2", "-D_GLIBCXX_ASSERTIONS", "-D" + GUARD, "-w", "-I", SRC, "-c", f, "-o", o])
    return (f, out if rc else None)


def ensure_natlib(h=None):
    """ordinary g++ -O2 build of the same sources, used only to replay counterexamples"""
    h = h or repo_hash()
    d = cache_dir(h)
    lib = os.path.join(d, "libbppnat.a")
    if os.path.exists(lib):
        return lib
    shutil.rmtree(os.path.join(d, "nobj"), ignore_errors=True)
    os.makedirs(os.path.join(d, "nobj"))
    srcs = repo_sources()
    with ThreadPoolExecutor(NPROC) as ex:
        res = list(ex.map(_native_one, [(f, d) for f in srcs]))
    bad = [r for r in res if r[1]]
    if bad:
        for f, e in bad:
            sys.stderr.write("NATIVE BUILD FAILURE %s\n%s\n" % (f, e))
        raise SystemExit(2)
    must(["ar", "rcs", lib + ".tmp"] + sorted(glob.glob(os.path.join(d, "nobj", "*.o"))))
    os.replace(lib + ".tmp", lib)
    shutil.rmtree(os.path.join(d, "nobj"), ignore_errors=True)
    return lib


def build_harness(src, defines, h=None, stubs=None):
    """compile harness through the same pass and link with the instrumented library + runtime"""
    so, rt, rp = ensure_tools()
    h = h or repo_hash()
    lib = ensure_symlib(h)
    d = cache_dir(h)
    key = hashlib.sha256((src + "|" + " ".join(defines) + "|" + sha_files([src, os.path.join(ES, "symrt.h")]) + "|" + str(stubs)).encode()).hexdigest()[:16]
    exe = os.path.join(d, "h_" + os.path.basename(src)[:-4] + "_" + key)
    if os.path.exists(exe) and not newer(exe, [rt, lib]):
        return exe
    ll, bc = exe + ".ll", exe + ".bc"
    must(["clang++-14"] + CXXF + ["-I", SRC, "-I", ES, "-I", os.path.join(VERIF, "harness")] + ["-D" + x for x in defines] + ["-S", "-emit-llvm", src, "-o", ll])
    must(["opt-14", "-load-pass-plugin=" + so, "-passes=symfp", ll, "-o", bc])
    must(["clang++-14", "-O1", bc, rt, lib] + Z3LINK + ["-o", exe + ".tmp"])
    os.replace(exe + ".tmp", exe)
    os.remove(ll); os.remove(bc)
    return exe


def build_replay(src, defines, h=None):
    so, rt, rp = ensure_tools()
    h = h or repo_hash()
    lib = ensure_natlib(h)
    d = cache_dir(h)
    key = hashlib.sha256((src + "|" + " ".join(defines) + "|" + sha_files([src, os.path.join(ES, "symrt.h")])).encode()).hexdigest()[:16]
    exe = os.path.join(d, "r_" + os.path.basename(src)[:-4] + "_" + key)
    if os.path.exists(exe) and not newer(exe, [rp, lib]):
        return exe
    must(["g++"] + STUBS + ["-std=c++17", "-O1", "-D_GLIBCXX_ASSERTIONS", "-D" + GUARD, "-DSYM_REPLAY", "-w", "-I", SRC, "-I", ES, "-I", os.path.join(VERIF, "harness")] + ["-D" + x for x in defines] +
         [src, rp, lib, "-o", exe + ".tmp"])
    os.replace(exe + ".tmp", exe)
    return exe
