"""Driver for engine S jobs: build, run the symbolic exploration, replay counterexamples natively,
match known findings, write evidence."""
import json, os, re, subprocess, sys, time, tempfile, shutil, hashlib
from . import build

VERIF = build.VERIF
EVID = os.environ.get("VERIF_EVIDENCE_DIR") or os.path.join(VERIF, "evidence")   # the override is used only by tools/seedtest.py (checks against a patched scratch copy)
KNOWN = os.path.join(VERIF, "known-findings.txt")


class Job:
    def __init__(self, name, src, defines=(), mode="real", tiers=("quick", "thorough"), budget_s=120, timeout_ms=20000,
                 procs=16, fix=None, desc="", env=None, replay_tol=1e-9, spurious_possible=False, thorough_defines=None,
                 thorough_budget_s=None, min_paths=1, background=False):
        self.name, self.src, self.defines, self.mode, self.tiers = name, src, list(defines), mode, tiers
        self.budget_s, self.timeout_ms, self.procs, self.fix, self.desc = budget_s, timeout_ms, procs, fix, desc
        self.env = env or {}
        self.replay_tol = replay_tol
        self.spurious_possible = spurious_possible   # UF/axiomatised functions: a model may not be realisable
        self.thorough_defines = thorough_defines
        self.thorough_budget_s = thorough_budget_s
        self.min_paths = min_paths
        self.background = background      # few-path job dominated by single long solver queries: runs next to the sequential chain of the other jobs


def load_known(pid):
    known, fixed = [], []
    if os.path.exists(KNOWN):
        for line in open(KNOWN):
            line = line.strip()
            if not line or line.startswith("#"):
                continue
            if line.startswith("fixed:"):
                fixed.append(line); continue
            m = re.match(r"known: property=(\S+) job=(\S+) msg=/(.*?)/ config=/(.*?)/ :: (.*)$", line)
            if m and m.group(1) == pid:
                known.append(dict(job=m.group(2), msg=m.group(3), config=m.group(4), what=m.group(5)))
    return known, fixed


def match_known(known, job, rec):
    for k in known:
        if (k["job"] == "*" or k["job"] == job) and re.search(k["msg"], rec.get("msg", "")) and re.search(k["config"], rec.get("config", "")):
            return k
    return None


def write_replay_file(path, rec, tol):
    with open(path, "w") as f:
        f.write("# job=%s kind=%s msg=%s\n" % (rec.get("job"), rec.get("kind"), rec.get("msg")))
        for c in rec.get("config", "").split():
            if "=" in c:
                f.write("choice %s\n" % c)
        f.write("tol x=%g\n" % tol)
        for k, v in (rec.get("model") or {}).items():
            f.write("double %s=%s\n" % (k, v))


def run_job(pid, job, tier, h):
    defines = list(job.defines)
    if tier == "thorough" and job.thorough_defines is not None:
        defines = list(job.thorough_defines)
    budget = job.budget_s if tier == "quick" or not job.thorough_budget_s else job.thorough_budget_s
    src = os.path.join(VERIF, "harness", job.src)
    exe = build.build_harness(src, defines, h)
    out = tempfile.NamedTemporaryFile(prefix="symout_", suffix=".jsonl", delete=False, dir=build.BUILD).name
    env = dict(os.environ)
    env.update({"SYM_MODE": job.mode, "SYM_PROCS": str(job.procs), "SYM_OUT": out, "SYM_BUDGET_S": str(budget),
                "SYM_TIMEOUT_MS": str(job.timeout_ms)})
    if job.fix:
        env["SYM_FIX"] = job.fix
    env.update(job.env)
    t0 = time.time()
    summary = None
    import signal
    proc = subprocess.Popen([exe], env=env, stdout=subprocess.PIPE, stderr=subprocess.PIPE, text=True, start_new_session=True)
    try:
        so, se = proc.communicate(timeout=budget + 90)
        for line in so.splitlines():
            if line.startswith("SUMMARY "):
                summary = json.loads(line[8:])
        stderr_tail = se[-2000:]
    except subprocess.TimeoutExpired:
        stderr_tail = "driver timeout: run exceeded budget+90s"
    try:
        os.killpg(proc.pid, signal.SIGKILL)     # no stray path processes survive the job
    except ProcessLookupError:
        pass
    try:
        proc.communicate(timeout=10)
    except Exception:
        pass
    wall = time.time() - t0
    recs = []
    with open(out) as f:
        for line in f:
            try:
                r = json.loads(line)
            except Exception:
                continue
            r["job"] = job.name
            recs.append(r)
    os.remove(out)
    return dict(job=job, defines=defines, exe=exe, summary=summary, recs=recs, wall=wall, stderr=stderr_tail, budget=budget, src=src)


def replay(pid, res, rec, idx, h):
    job = res["job"]
    d = os.path.join(EVID, "replay")
    os.makedirs(d, exist_ok=True)
    path = os.path.join(d, "%s_%s_%d.txt" % (pid, job.name, idx))
    write_replay_file(path, rec, job.replay_tol)
    if not rec.get("have_model", False) and rec.get("kind") != "CRASH":
        return path, "no-model", ""
    exe = build.build_replay(res["src"], res["defines"], h)
    env = dict(os.environ); env["SYM_REPLAY_FILE"] = path
    try:
        p = subprocess.run([exe], env=env, stdout=subprocess.PIPE, stderr=subprocess.STDOUT, text=True, timeout=120)
        out = p.stdout[-1500:]
        if p.returncode == 1 or p.returncode < 0 or p.returncode >= 128 or (p.returncode != 0 and "REPLAY-" not in out):
            status = "reproduced"
        elif p.returncode == 0:
            status = "not-reproduced"
        elif p.returncode == 2:
            status = "assumption-not-met"
        else:
            status = "replay-unsupported"
    except subprocess.TimeoutExpired:
        out, status = "replay timeout (native run did not terminate in 120 s)", "reproduced"
    with open(path, "a") as f:
        f.write("# native replay: %s\n" % status)
        for l in out.splitlines()[-8:]:
            f.write("#   %s\n" % l)
        f.write("# to replay: SYM_REPLAY_FILE=%s %s\n" % (path, exe))
    return path, status, out


def check_property(pid, spec, tier):
    """spec: module with JOBS (list of Job), FUNCTIONS, BOUNDS, OUTSIDE, ASSUMPTIONS, LEVEL"""
    t0 = time.time()
    seed = int(os.environ.get("VERIF_SEED", "0") or 0)
    os.makedirs(EVID, exist_ok=True)
    h = build.repo_hash()
    tb0 = time.time()
    build.ensure_symlib(h)
    build_s = time.time() - tb0
    known, fixed = load_known(pid)
    jobs = [j for j in spec.JOBS if tier in j.tiers]
    results = []
    # jobs run one after the other, each using up to job.procs processes; 'background' jobs (a handful of paths, long single queries) run beside that chain
    import concurrent.futures
    with concurrent.futures.ThreadPoolExecutor(max_workers=4) as pool:
        futs = {j.name: pool.submit(run_job, pid, j, tier, h) for j in jobs if j.background}
        for j in jobs:
            results.append(futs[j.name].result() if j.background else run_job(pid, j, tier, h))
    violations, known_hits, inconclusive = [], [], []
    cov_jobs, samples = [], []
    tot = dict(formatted_symbolic=0, div0_pruned=0, paths_ok=0, fail=0, abort=0, cut=0, crash=0, pruned=0, solver_calls=0, q_sat=0, q_unsat=0, by_norm=0, asserts=0, unknown=0, solver_s=0.0, forks=0)
    axioms = set()
    configs_all = 0
    nrep = 0
    for res in results:
        job, s, recs = res["job"], res["summary"], res["recs"]
        if s is None:
            inconclusive.append("%s: run did not complete (%s)" % (job.name, res["stderr"][-300:]))
            s = {}
        for k in tot:
            tot[k] += s.get(k, 0)
        cfg = {}
        vac = 0
        for r in recs:
            for a in r.get("axioms", []):
                axioms.add(a)
            if r["kind"] == "OK":
                c = cfg.setdefault(r.get("config", ""), 0); cfg[r.get("config", "")] = c + 1
        configs_all += len(cfg)
        bad = [r for r in recs if r["kind"] in ("FAIL", "ABORT", "CRASH")]
        cuts = [r for r in recs if r["kind"] == "CUT"]
        if cuts:
            inconclusive.append("%s: %d paths cut by the %ds wall budget" % (job.name, len(cuts), res["budget"]))
        if s and s.get("paths_ok", 0) < job.min_paths and not bad:
            inconclusive.append("%s: only %d completed paths (vacuity guard expects >= %d)" % (job.name, s.get("paths_ok", 0), job.min_paths))
        # group failures by (kind, msg); replay up to 2 configurations per group (max 10 groups per job)
        groups = {}
        for r in bad:
            groups.setdefault((r["kind"], r.get("msg", "")), []).append(r)
        for gi, ((kind, msg), rs) in enumerate(sorted(groups.items())):
            unknown_rs = []
            for r in rs:
                k = match_known(known, job.name, r)
                if k:
                    if not any(k is kk for kk, _ in known_hits):
                        known_hits.append((k, r))
                else:
                    unknown_rs.append(r)
            if not unknown_rs:
                continue
            if gi >= 10:
                inconclusive.append("%s: further failure groups not replayed" % job.name); break
            seen_cfg, reps = set(), []
            for r in unknown_rs:
                if r.get("config", "") not in seen_cfg and r.get("have_model", kind == "CRASH"):
                    seen_cfg.add(r.get("config", "")); reps.append(r)
                if len(reps) >= 3:
                    break
            if not reps:
                reps = unknown_rs[:1]
            statuses = []
            for rec in reps:
                nrep += 1
                path, status, out = replay(pid, res, rec, nrep, h)
                statuses.append(status)
                entry = dict(job=job.name, kind=kind, msg=msg, config=rec.get("config", ""), replay=path, status=status, model=rec.get("model"),
                             failing_paths_in_group=len(unknown_rs), configurations_in_group=len(set(r.get("config", "") for r in unknown_rs)))
                if status == "reproduced":
                    violations.append(entry); break
            if "reproduced" not in statuses:
                inconclusive.append("%s: %s '%s' (%d paths) did not reproduce natively: %s (%s)" % (job.name, kind, msg, len(unknown_rs), ",".join(statuses), path))
        cov_jobs.append(dict(job=job.name, harness=job.src, defines=res["defines"], mode=job.mode, what=job.desc,
                             configurations=len(cfg), paths_completed=s.get("paths_ok", 0), paths_pruned_by_assumption=s.get("pruned", 0),
                             failing_paths=s.get("fail", 0), aborted_paths=s.get("abort", 0), crashed_paths=s.get("crash", 0), cut_paths=s.get("cut", 0),
                             assertion_instances=s.get("asserts", 0), solver_queries=s.get("solver_calls", 0), decided_by_normal_form=s.get("by_norm", 0),
                             unknown_overapproximated=s.get("unknown", 0), solver_s=s.get("solver_s", 0), wall_s=round(res["wall"], 2), budget_s=res["budget"]))
        for c in list(cfg.items())[:3]:
            samples.append(dict(job=job.name, configuration=c[0], completed_paths=c[1]))
    # verdict
    lines = []
    for k, rec in known_hits:
        lines.append("KNOWN-FINDING: property=%s %s" % (pid, k["what"]))
    for v in violations:
        lines.append("VIOLATION property=%s replay=%s" % (pid, v["replay"]))
    for i in inconclusive:
        lines.append("INCONCLUSIVE property=%s %s" % (pid, i))
    seen = set()
    for l in lines:
        if l not in seen:
            print(l); seen.add(l)
    wall = time.time() - t0
    ev = dict(property_id=pid, tier=tier, seed=seed, level=getattr(spec, "LEVEL", "other"),
              coverage=dict(
                  explanation=spec.EXPLANATION,
                  functions_encoded=spec.FUNCTIONS, bounds=spec.BOUNDS, outside_the_claim=spec.OUTSIDE,
                  engine="S: LLVM-IR instrumentation of every double operation of the real code + z3 (see DESIGN.md section 1)",
                  repo_source_hash=h, instrumented_library_build_s=round(build_s, 1),
                  evaluations=tot["paths_ok"] + tot["fail"] + tot["abort"] + tot["crash"],
                  distinct_nontrivial=tot["paths_ok"],
                  rule="one evaluation = one feasible path of the compiled code explored to its end under a satisfiable path condition; distinct by construction (path conditions are mutually exclusive); non-trivial = reached the end of the harness, i.e. passed every assertion on the path for all inputs satisfying the path condition",
                  obligations=tot["asserts"], discharged=tot["asserts"] - tot["fail"],
                  configurations=configs_all,
                  solver_queries=tot["solver_calls"], queries_sat=tot["q_sat"], queries_unsat=tot["q_unsat"], decided_by_normal_form=tot["by_norm"],
                  unknown_overapproximated=tot["unknown"], solver_s=round(tot["solver_s"], 2),
                  paths_dropped_at_exact_division_by_zero=tot["div0_pruned"],
                  symbolic_values_that_reached_text_formatting=tot["formatted_symbolic"],
                  text_formatting_note="doubles handed to iostream/printf formatting are let through and print as nan (messages, warnings and exception texts are not the subject); control flow depending on such text would be outside the claim - the one place in the library that did (aliasParameters comparing constraint descriptions) was repaired in /repo; any other external function receiving a symbolic value ends the path as unsupported (reported inconclusive)",
                  paths_cut=tot["cut"], paths_aborted=tot["abort"], paths_pruned_by_assumption=tot["pruned"],
                  axioms=sorted(axioms), jobs=cov_jobs, samples=samples or [dict(note="no completed path")],
                  known_findings=[k["what"] for k, _ in known_hits], counterexamples=violations, inconclusive=inconclusive,
                  exhaustive=False),
              assumptions=spec.ASSUMPTIONS, wall_s=round(wall, 2), violations=len(violations))
    with open(os.path.join(EVID, pid + ".json"), "w") as f:
        json.dump(ev, f, indent=1)
    if violations:
        return 1
    if inconclusive:
        return 3
    return 0
