"""Engine K driver: real C++ units + extern "C" kernels -> LLVM IR (clang) -> C (own translator ir2c) -> CBMC bounded model checking.
Everything is regenerated from /repo's working tree on every run."""
import hashlib, json, os, re, subprocess, sys, time, shutil
from concurrent.futures import ThreadPoolExecutor
from . import build

VERIF = build.VERIF
EK = os.path.join(VERIF, "engine_k")
KH = os.path.join(VERIF, "kharness")
CLF = ["-std=c++17", "-O1", "-fno-vectorize", "-fno-slp-vectorize", "-fno-unroll-loops", "-D_GLIBCXX_ASSERTIONS", "-D" + build.GUARD, "-w", "-I", build.SRC, "-S", "-emit-llvm"]
CBMC_FLAGS = ["--unwinding-assertions", "--no-malloc-may-fail", "--drop-unused-functions", "--signed-overflow-check", "--undefined-shift-check", "--conversion-check-off" if False else "--div-by-zero-check"]


def ensure_ir2c():
    os.makedirs(build.BUILD, exist_ok=True)
    exe = os.path.join(build.BUILD, "ir2c")
    src = os.path.join(EK, "ir2c.cpp")
    if build.newer(exe, [src]):
        cfg = build.must(["llvm-config-14", "--cxxflags"]).split()
        ld = build.must(["llvm-config-14", "--ldflags", "--libs", "core", "irreader", "support"]).split()
        build.must(["clang++-14"] + cfg + [src] + ld + ["-o", exe + ".tmp"])
        os.replace(exe + ".tmp", exe)
    return exe


def build_kernels(kernel_cpp, units, api, tag):
    """returns path of the generated C file (cached by content hash of /repo/src + engine + kernel file)"""
    ir2c = ensure_ir2c()
    h = build.repo_hash()
    key = hashlib.sha256((h + build.sha_files([kernel_cpp, os.path.join(EK, "ir2c.cpp")]) + ",".join(units + api)).encode()).hexdigest()[:16]
    d = os.path.join(build.cache_dir(h), "k_" + tag + "_" + key)
    cfile = os.path.join(d, "all.c")
    if os.path.exists(cfile):
        return cfile, d
    shutil.rmtree(d, ignore_errors=True); os.makedirs(d)
    lls = []
    for i, f in enumerate([kernel_cpp] + [os.path.join(build.SRC, u) for u in units]):
        ll = os.path.join(d, "u%d.ll" % i)
        build.must(["clang++-14"] + CLF + [f, "-o", ll]); lls.append(ll)
    build.must(["llvm-link-14", "-S"] + lls + ["-o", os.path.join(d, "all.ll")])
    build.must(["opt-14", "-S", "-passes=internalize,globaldce", "-internalize-public-api-list=" + ",".join(api), os.path.join(d, "all.ll"), "-o", os.path.join(d, "all2.ll")])
    build.must(["opt-14", "-S", "-O2", "-vectorize-loops=false", "-vectorize-slp=false", "-inline-threshold=100000", os.path.join(d, "all2.ll"), "-o", os.path.join(d, "all3.ll")])
    build.must([ir2c, os.path.join(d, "all3.ll"), cfile + ".tmp"])
    os.replace(cfile + ".tmp", cfile)
    for f in lls + [os.path.join(d, x) for x in ("all.ll", "all2.ll")]:
        os.remove(f)
    return cfile, d


def run_cbmc(cfile, harness_c, function, defines, unwind, timeout_s, witness=False, trace=False, copy_unwind=24):
    cu = str(copy_unwind)
    cmd = ["cbmc", cfile, os.path.join(EK, "ir2c_rt.c"), harness_c, "-I", EK, "--function", function, "--unwind", str(unwind), "--unwindset", "__ir2c_memcpy.0:%s,__ir2c_memmove.0:%s,__ir2c_memset.0:%s,ext_strlen.0:%s" % (cu, cu, cu, cu)] + CBMC_FLAGS + ["-D" + x for x in defines]
    if witness: cmd.append("-DWITNESS")
    if trace: cmd.append("--trace")
    t0 = time.time()
    try:
        p = subprocess.run(cmd, stdout=subprocess.PIPE, stderr=subprocess.STDOUT, text=True, timeout=timeout_s)
        out, rc = p.stdout, p.returncode
    except subprocess.TimeoutExpired:
        return dict(status="timeout", wall=time.time() - t0, out="", cmd=" ".join(cmd))
    status = "error"
    if "VERIFICATION SUCCESSFUL" in out: status = "ok"
    elif "VERIFICATION FAILED" in out: status = "failed"
    m = re.search(r"\*\* (\d+) of (\d+) failed", out)
    fails = [l.strip() for l in out.splitlines() if l.rstrip().endswith(": FAILURE")]
    return dict(status=status, wall=time.time() - t0, nprops=int(m.group(2)) if m else 0, nfailed=int(m.group(1)) if m else 0, failures=fails, out=out, cmd=" ".join(cmd), rc=rc)


class KJob:
    def __init__(self, harness, lens, variants=([],), unwind=10, copy_unwind=24, timeout_s=300, tiers=("quick", "thorough"), desc=""):
        self.harness, self.lens, self.variants, self.unwind, self.copy_unwind, self.timeout_s, self.tiers, self.desc = harness, list(lens), [list(v) for v in variants], unwind, copy_unwind, timeout_s, tiers, desc


BENIGN = [r"pointer relation: pointer NULL"]   # begin()/end() of a never-allocated std::vector are both null and get compared: a translation artefact, not an access


# units the verified ones refer to from functions no kernel reaches (the native link needs them; the CBMC side drops unreached functions)
REPLAY_EXTRA_UNITS = ["Bpp/Text/StringTokenizer.cpp", "Bpp/Text/NestedStringTokenizer.cpp"]


def native_replay(kernel_cpp, units, harness_c, function, defines, values, workdir):
    """re-run a CBMC counterexample against the real code: the same harness source compiled natively (nondet_* return the recorded values in call order),
    linked with the kernels and the real units built by g++ with ASan/UBSan and libstdc++ assertions"""
    exe = os.path.join(workdir, "replay_" + hashlib.sha256((function + " ".join(defines)).encode()).hexdigest()[:10])
    shim = os.path.join(workdir, "replay_shim.c")
    with open(shim, "w") as f:
        f.write('#include <stdint.h>\n#include <stdio.h>\n#include <stdlib.h>\nint __exc_pending; char* __exc_obj; char* __exc_type; char __ir2c_dummy_vt[128];\nvoid __ir2c_init_globals(void) {}\n'
                'static unsigned long long vals[4096]; static int nv, pos;\nstatic unsigned long long next(void) { return pos < nv ? vals[pos++] : 0; }\n'
                'uint8_t nondet_u8(void) { return (uint8_t)next(); } uint32_t nondet_u32(void) { return (uint32_t)next(); } uint64_t nondet_u64(void) { return next(); }\n'
                'void __CPROVER_assume(int c) { if (!c) { printf("REPLAY-ASSUMPTION\\n"); exit(2); } }\n'
                'void %s(void);\nint main(int argc, char** argv) { for (int i = 1; i < argc && nv < 4096; i++) vals[nv++] = strtoull(argv[i], 0, 10); %s(); printf("REPLAY-PASS\\n"); return 0; }\n' % (function, function))
    objs = []
    cmd = ["gcc", "-O1", "-g", "-fsanitize=address,undefined", "-fno-sanitize-recover=undefined", "-I", EK, "-c", harness_c, "-o", exe + "_h.o"] + ["-D" + x for x in defines]
    build.must(cmd); objs.append(exe + "_h.o")
    build.must(["gcc", "-O1", "-fsanitize=address,undefined", "-c", shim, "-o", exe + "_s.o"]); objs.append(exe + "_s.o")
    build.must(["g++", "-std=c++17", "-O1", "-g", "-D_GLIBCXX_ASSERTIONS", "-fsanitize=address,undefined", "-fno-sanitize-recover=undefined", "-w", "-I", build.SRC] + objs + [kernel_cpp] + [os.path.join(build.SRC, u) for u in units + REPLAY_EXTRA_UNITS if os.path.exists(os.path.join(build.SRC, u))] + ["-o", exe])
    try:
        p = subprocess.run([exe] + [str(v) for v in values], stdout=subprocess.PIPE, stderr=subprocess.STDOUT, text=True, timeout=60)
        out = p.stdout[-1500:]
        if p.returncode == 0: return "not-reproduced", out, exe
        if p.returncode == 2 and "REPLAY-ASSUMPTION" in out: return "assumption-not-met", out, exe
        return "reproduced", out, exe
    except subprocess.TimeoutExpired:
        return "reproduced", "native run did not terminate within 60 s", exe


def check_property(pid, spec, tier):
    from . import engine
    t0 = time.time(); seed = int(os.environ.get("VERIF_SEED", "0") or 0)
    evid = engine.EVID; os.makedirs(os.path.join(evid, "replay"), exist_ok=True)
    kernel_cpp = os.path.join(KH, spec.KERNELS)
    harness_c = os.path.join(KH, spec.HARNESS)
    tb = time.time(); cfile, wd = build_kernels(kernel_cpp, spec.UNITS, spec.API, spec.TAG); build_s = time.time() - tb
    known, fixed = engine.load_known(pid)
    runs = []
    for j in spec.JOBS:
        if tier not in j.tiers: continue
        for v in j.variants:
            for n in j.lens:
                runs.append((j, v, n, False))
        runs.append((j, j.variants[0], j.lens[-1], True))     # vacuity witness: the twin's final assert(0) must be reachable
    def go(r):
        j, v, n, wit = r
        return r, run_cbmc(cfile, harness_c, j.harness, ["NLEN=%d" % n, "LMAX=%d" % spec.LMAX[tier]] + v, j.unwind, j.timeout_s, witness=wit, copy_unwind=j.copy_unwind)
    with ThreadPoolExecutor(int(os.environ.get("VERIF_KJOBS", "8"))) as ex:
        results = list(ex.map(go, runs))
    violations, inconclusive, known_hits, samples, cov = [], [], [], [], []
    nprops = ndis = 0; solver_s = 0.0; nrep = 0
    for (j, v, n, wit), r in results:
        solver_s += r["wall"]
        label = "%s len=%d %s" % (j.harness, n, " ".join(v))
        if wit:
            ok = r["status"] == "failed" and any("assertion 0" in f or "assertion (0)" in f or "END" in f or "assert(0)" in f for f in r.get("failures", []))
            if not ok: inconclusive.append("%s: vacuity witness not reached (%s)" % (label, r["status"]))
            continue
        cov.append(dict(harness=j.harness, length=n, variant=v, status=r["status"], properties=r.get("nprops", 0), failed=r.get("nfailed", 0), wall_s=round(r["wall"], 1), unwind=j.unwind, copy_unwind=j.copy_unwind))
        if r["status"] == "ok":
            nprops += r["nprops"]; ndis += r["nprops"]
            if len(samples) < 6: samples.append(dict(harness=j.harness, byte_string_length=n, variant=v, properties_checked=r["nprops"], verdict="all hold for every byte string of this length and every option value"))
            continue
        if r["status"] in ("timeout", "error"):
            inconclusive.append("%s: no verdict (%s after %.0f s)" % (label, r["status"], r["wall"])); continue
        real = [f for f in r["failures"] if not any(re.search(b, f) for b in BENIGN)]
        nprops += r["nprops"]; ndis += r["nprops"] - len(real)
        if not real: continue
        rec = dict(msg=real[0], config=label)
        k = engine.match_known(known, j.harness, rec)
        if k:
            if not any(k is kk for kk in known_hits): known_hits.append(k)
            continue
        # counterexample: re-run with a trace, extract the nondeterministic values in call order, replay natively
        tr = run_cbmc(cfile, harness_c, j.harness, ["NLEN=%d" % n, "LMAX=%d" % spec.LMAX[tier]] + v, j.unwind, j.timeout_s, copy_unwind=j.copy_unwind, trace=True)
        seg = tr["out"]; i0 = seg.find("Trace for"); i1 = seg.find("Trace for", i0 + 10); seg = seg[i0:i1] if i1 > 0 else seg[i0:]
        vals = [int(m.group(2)) for m in re.finditer(r"return_value_nondet_(u8|u32|u64)[^=\n]*=(\d+)", seg)]
        nrep += 1
        path = os.path.join(evid, "replay", "%s_%s_%d.txt" % (pid, j.harness, nrep))
        status, out, exe = native_replay(kernel_cpp, spec.UNITS, harness_c, j.harness, ["NLEN=%d" % n, "LMAX=%d" % spec.LMAX[tier]] + v, vals, wd)
        with open(path, "w") as f:
            f.write("# harness=%s %s\n# failed properties: %s\n# nondeterministic values in call order (bytes of the string first): %s\n# native replay (ASan+UBSan+libstdc++ assertions): %s\n" % (j.harness, label, "; ".join(real[:6]), " ".join(map(str, vals)), status))
            for l in out.splitlines()[-12:]: f.write("#   %s\n" % l)
            f.write("# to replay: %s %s\n" % (exe, " ".join(map(str, vals))))
        entry = dict(job=j.harness, msg=real[0], config=label, replay=path, status=status, values=vals[:16], failed_properties=real[:6])
        if status == "reproduced": violations.append(entry)
        else: inconclusive.append("%s: %s -- counterexample did not reproduce natively (%s): %s" % (label, real[0][:120], status, path))
    lines = ["KNOWN-FINDING: property=%s %s" % (pid, k["what"]) for k in known_hits] + ["VIOLATION property=%s replay=%s" % (pid, v["replay"]) for v in violations] + ["INCONCLUSIVE property=%s %s" % (pid, i) for i in inconclusive]
    for l in dict.fromkeys(lines): print(l)
    ok_runs = sum(1 for c in cov if c["status"] == "ok")
    ev = dict(property_id=pid, tier=tier, seed=seed, level="other",
              coverage=dict(explanation=spec.EXPLANATION, functions_encoded=spec.FUNCTIONS, bounds=spec.BOUNDS, outside_the_claim=spec.OUTSIDE,
                            engine="K: clang-14 LLVM IR of the real units + kernels -> own IR-to-C translator (engine_k/ir2c.cpp) -> CBMC 6.11 (SAT) with unwinding assertions",
                            repo_source_hash=build.repo_hash(), kernel_build_s=round(build_s, 1), units=spec.UNITS, runtime_model=spec.RUNTIME_MODEL,
                            evaluations=len(cov), distinct_nontrivial=ok_runs, rule="one evaluation = one CBMC run (harness, exact string length, option variant) deciding all generated properties for every byte string of that length; non-trivial = verdict SUCCESSFUL with the unwinding assertions included",
                            obligations=nprops, discharged=ndis, cbmc_flags=CBMC_FLAGS, solver_s=round(solver_s, 1), runs=cov, samples=samples or [dict(note="no successful run")],
                            known_findings=[k["what"] for k in known_hits], counterexamples=violations, inconclusive=inconclusive, exhaustive=False),
              assumptions=spec.ASSUMPTIONS, wall_s=round(time.time() - t0, 2), violations=len(violations))
    with open(os.path.join(evid, pid + ".json"), "w") as f: json.dump(ev, f, indent=1)
    return 1 if violations else (3 if inconclusive else 0)
