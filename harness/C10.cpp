// C10: one-dimensional optimisers and bracketing on an arbitrary (uninterpreted) objective (REAL mode).
// The objective, its first and second derivative are uninterpreted functions: every claim holds for all objectives. Evaluation budgets bound the exploration.
#include <Bpp/Numeric/Function/OneDimensionOptimizationTools.h>
#include <Bpp/Numeric/Function/BrentOneDimension.h>
#include <Bpp/Numeric/Function/GoldenSectionSearch.h>
#include <Bpp/Numeric/Function/NewtonOneDimension.h>
#include <Bpp/Numeric/Function/NewtonBacktrackOneDimension.h>
#include <Bpp/Numeric/Function/DownhillSimplexMethod.h>
#include <Bpp/Numeric/Function/SimpleMultiDimensions.h>
#include <Bpp/Numeric/Function/PowellMultiDimensions.h>
#include <Bpp/Numeric/Function/Functions.h>
#include <Bpp/Numeric/AbstractParametrizable.h>
#include <Bpp/Numeric/AutoParameter.h>
#include <Bpp/Numeric/Constraints.h>
#include <Bpp/App/ApplicationTools.h>
#include "symrt.h"
#include <memory>
#include <cmath>
#include <vector>
using namespace bpp;
using namespace std;
#ifndef DSMAX
#define DSMAX 5
#endif
#ifndef QALGOMAX
#define QALGOMAX 1
#endif
#ifndef EVALMAX
#define EVALMAX 6
#endif

class Obj : public virtual SecondOrderDerivable, public AbstractParametrizable {
public:
  mutable int evals = 0; int budget; bool boxed; double lo, hi; bool quad = false; double qa = 1, qm = 0, qc = 0;
  double valueAt(double x) const { return qa * (x - qm) * (x - qm) + qc; }
  Obj(double x0, int budget_, bool boxed_ = false, double l = 0, double u = 0) : AbstractParametrizable(""), budget(budget_), boxed(boxed_), lo(l), hi(u) {
    if (boxed) addParameter_(new Parameter("x", x0, make_shared<IntervalConstraint>(l, u, true, true))); else addParameter_(new Parameter("x", x0)); }
  Obj* clone() const override { return new Obj(*this); }
  void setParameters(const ParameterList& pl) override { matchParametersValues(pl); }
  double X() const { return getParameterValue("x"); }
  double getValue() const override { if (++evals > budget) __sym_prune();      // bounded exploration: runs needing more evaluations are outside the bound
    if (boxed) SYM_ASSERT(X() >= lo && X() <= hi, "objective evaluated outside its parameter's constraint");
    if (quad) return valueAt(X());
    double v = __sym_apply("f", X()); SYM_ASSUME(v > -1e6 && v < 1e6);
#ifdef SEPARATE
    // generic-position variant: objective values at different points differ by more than 1e-3 and are of moderate size, so that a counterexample survives the
    // rounding of the native replay (the unrestricted variant of the same job covers ties)
    SYM_ASSUME(v > -100 && v < 100); bool seen = false; for (auto& pr : hist) if (pr.first == X()) seen = true; if (!seen) { for (auto& pr : hist) SYM_ASSUME(fabs(v - pr.second) > 1e-3); hist.push_back({X(), v}); }
#endif
    return v; }
  mutable std::vector<std::pair<double, double>> hist;
  void enableFirstOrderDerivatives(bool) override {} bool enableFirstOrderDerivatives() const override { return true; }
  void enableSecondOrderDerivatives(bool) override {} bool enableSecondOrderDerivatives() const override { return true; }
  double getFirstOrderDerivative(const string&) const override { if (quad) return 2 * qa * (X() - qm); double v = __sym_apply("df", X()); SYM_ASSUME(v > -1e6 && v < 1e6); return v; }
  double getSecondOrderDerivative(const string&) const override { if (quad) return 2 * qa; double v = __sym_apply("d2f", X()); SYM_ASSUME(v > -1e6 && v < 1e6 && !(v == 0)); return v; }
  double getSecondOrderDerivative(const string&, const string&) const override { return 0; }
};
static double F(double x) { return __sym_apply("f", x); }
// two-variable objective: an uninterpreted function R^2 -> R (every claim holds for all objectives), optionally a strictly convex quadratic with symbolic minimiser
class Obj2 : public virtual FunctionInterface, public AbstractParametrizable {
public:
  mutable int evals = 0; int budget; bool quad; double mx = 0, my = 0, ax = 1, ay = 1, c0 = 0;
  Obj2(double x0, double y0, int budget_, bool quad_ = false) : AbstractParametrizable(""), budget(budget_), quad(quad_) { addParameter_(new Parameter("x", x0)); addParameter_(new Parameter("y", y0)); }
  Obj2* clone() const override { return new Obj2(*this); }
  void setParameters(const ParameterList& pl) override { matchParametersValues(pl); }
  double X() const { return getParameterValue("x"); } double Y() const { return getParameterValue("y"); }
  double at(double x, double y) const { if (quad) return ax * (x - mx) * (x - mx) + ay * (y - my) * (y - my) + c0; double v = __sym_apply2("f2", x, y); SYM_ASSUME(v > -1e6 && v < 1e6); return v; }
  double getValue() const override { if (++evals > budget) __sym_prune(); return at(X(), Y()); }
};
static void quiet(AbstractOptimizer& o) { o.setVerbose(0); o.setProfiler(nullptr); o.setMessageHandler(nullptr); }

extern "C" void verif_harness() {
  ApplicationTools::message = nullptr; ApplicationTools::warning = nullptr; ApplicationTools::error = nullptr;
  int which = __sym_choose("harness", HLO, HHI);
  if (which == 0) {
    // ---- inward bracketing: the middle point of the triple has the lowest value among all probed points ----
    double a = symd("a"), b = symd("b"); SYM_ASSUME(a < b && a > -100 && b < 100);
    int n = __sym_choose("intervals", 1, 4);
    Obj f(a, 20); ParameterList pl = f.getParameters();
    Bracket br = OneDimensionOptimizationTools::inwardBracketMinimum(a, b, f, pl, (unsigned)n);
    SYM_ASSERT(br.a.x == a && br.b.x == b, "inward bracketing moved the end points");
    SYM_ASSERT_EQ(br.a.f, F(a), "recorded value at a is not f(a)"); SYM_ASSERT_EQ(br.b.f, F(b), "recorded value at b is not f(b)"); SYM_ASSERT_EQ(br.c.f, F(br.c.x), "recorded value at the middle point is not f there");
    SYM_ASSERT(br.c.x >= a && br.c.x <= b, "middle point outside [a,b]");
    SYM_ASSERT(br.c.f <= br.a.f && br.c.f <= br.b.f, "middle point of the triple does not have the lowest value");
    for (int i = 0; i <= n; i++) SYM_ASSERT(br.c.f <= F(a + (b - a) / n * i), "a mesh point has a lower value than the returned middle point");
  } else if (which == 1) {
    // ---- outward bracketing from a concrete interval: whenever it returns within the evaluation budget, b is between a and c and has the lowest value ----
    static const double AS[2] = {0.0, -3.0}, BS[2] = {1.0, -2.0}; int k = __sym_choose("interval", 0, 1);
    Obj f(AS[k], EVALMAX); ParameterList pl = f.getParameters();
    Bracket br = OneDimensionOptimizationTools::bracketMinimum(AS[k], BS[k], f, pl);
    SYM_ASSERT_EQ(br.a.f, F(br.a.x), "recorded value at a is not f(a)"); SYM_ASSERT_EQ(br.b.f, F(br.b.x), "recorded value at b is not f(b)"); SYM_ASSERT_EQ(br.c.f, F(br.c.x), "recorded value at c is not f(c)");
    SYM_ASSERT((br.a.x < br.b.x && br.b.x < br.c.x) || (br.a.x > br.b.x && br.b.x > br.c.x), "bracketing triple is not ordered a, b, c");
    SYM_ASSERT(br.b.f <= br.a.f && br.b.f <= br.c.f, "middle point of the bracketing triple does not have the lowest value");
  } else if (which == 2) {
    // ---- Newton 1-D: one step from an arbitrary point ----
    int boxed = __sym_choose("constrained", 0, 1); double lo = 0, hi = 0, x0 = symd("x0"); SYM_ASSUME(x0 > -100 && x0 < 100 && !(x0 == 0));
    if (boxed) { lo = symd("lo"); hi = symd("hi"); SYM_ASSUME(lo < hi && x0 >= lo && x0 <= hi); }
    auto f = make_shared<Obj>(x0, 14, boxed, lo, hi);
    NewtonOneDimension opt(f); quiet(opt); opt.setConstraintPolicy(boxed ? AutoParameter::CONSTRAINTS_AUTO : AutoParameter::CONSTRAINTS_KEEP);
    opt.init(f->getParameters());
    double before = F(x0);
    double r = opt.step();
    double xr = opt.getParameters()[0].getValue();
    SYM_ASSERT(r <= before, "Newton step ended on a worse value than it started from");
    SYM_ASSERT_EQ(r, F(xr), "value returned by the Newton step is not the objective at the reported point");
    SYM_ASSERT(f->X() == xr, "objective is not left at the reported point after a Newton step");
    if (boxed) SYM_ASSERT(xr >= lo && xr <= hi, "reported point violates the constraint");
    SYM_ASSERT_EQ(opt.getFunctionValue(), r, "getFunctionValue differs from the value returned by the step");
  } else if (which == 3 || which == 4) {
    // ---- Brent (inward bracketing) / golden section: whole runs under an evaluation budget, from a concrete initial interval ----
    int boxed = __sym_choose("constrained", 0, 1); double lo = -2, hi = 3;    // the constraint contains the initial interval [0,1]
    if (boxed) { lo = symd("lo"); hi = symd("hi"); SYM_ASSUME(lo <= 0 && hi >= 1); }
    double p0 = symd("p0"); SYM_ASSUME(p0 >= 0 && p0 <= 1 && !(p0 == 0));
    int steps = __sym_choose("maxSteps", 1, 3);
    auto f = make_shared<Obj>(p0, which == 3 ? 18 : EVALMAX + 3, boxed, lo, hi);
    double r, xr; unsigned int nev;
    if (which == 3) { BrentOneDimension opt(f); quiet(opt); opt.setBracketing(BrentOneDimension::BRACKET_INWARD); opt.setInitialInterval(0, 1); opt.setConstraintPolicy(boxed ? AutoParameter::CONSTRAINTS_AUTO : AutoParameter::CONSTRAINTS_KEEP);
      opt.setMaximumNumberOfEvaluations(steps + 1); opt.init(f->getParameters()); r = opt.optimize(); xr = opt.getParameters()[0].getValue(); nev = opt.getNumberOfEvaluations();
      SYM_ASSERT(r <= F(p0), "Brent ended on a worse value than the starting point's"); SYM_ASSERT_EQ(opt.getFunctionValue(), r, "getFunctionValue differs from the returned value"); }
    else { GoldenSectionSearch opt(f); quiet(opt); opt.setInitialInterval(0, 1); opt.setConstraintPolicy(boxed ? AutoParameter::CONSTRAINTS_AUTO : AutoParameter::CONSTRAINTS_KEEP);
      opt.setMaximumNumberOfEvaluations(steps + 1); opt.init(f->getParameters()); r = opt.optimize(); xr = opt.getParameters()[0].getValue(); nev = opt.getNumberOfEvaluations(); }
    SYM_ASSERT_EQ(r, F(xr), "value returned by the optimiser is not the objective at the reported point");
    SYM_ASSERT(f->X() == xr, "objective is not left at the reported point");
    (void)nev;
    if (boxed) SYM_ASSERT(xr >= lo && xr <= hi, "reported point violates the constraint");
  } else if (which == 6) {
    // ---- downhill simplex in two dimensions, whole runs under an evaluation budget, from a concrete starting point (all probed points are then concrete on each path) ----
    static const double SX[2] = {0.5, -2.0}, SY[2] = {-1.0, 0.0}; int k = __sym_choose("start", 0, 1);
    int maxEval = __sym_choose("maxEval", 2, DSMAX);
    auto f = make_shared<Obj2>(SX[k], SY[k], 40);
    DownhillSimplexMethod opt(f); quiet(opt); opt.setConstraintPolicy(AutoParameter::CONSTRAINTS_KEEP); opt.setMaximumNumberOfEvaluations(maxEval);
    opt.init(f->getParameters());
    double start = f->at(SX[k], SY[k]);
    double r = opt.optimize();
    double xr = opt.getParameters()[0].getValue(), yr = opt.getParameters()[1].getValue();
    SYM_ASSERT(r <= start, "downhill simplex ended on a worse value than the starting point's");
    SYM_ASSERT_EQ(r, f->at(xr, yr), "value returned by the downhill simplex is not the objective at the reported point");
    SYM_ASSERT(f->X() == xr && f->Y() == yr, "objective is not left at the reported point after the downhill simplex");
    // evaluation budget: 3 for the initial simplex, then every iteration that starts below the budget may use up to 2 + 2 evaluations, plus the final one in optimize()
    SYM_ASSERT(f->evals <= 3 + maxEval + 4 + 1, "downhill simplex exceeded its evaluation budget by more than the iteration in progress");
  } else if (which == 7) {
    // ---- strictly convex quadratic a(x-m)^2+c with symbolic a>0, m, c: whole runs of the one-dimensional optimisers reach the minimiser within their stopping tolerance ----
    int algo = __sym_choose("optimiser", 0, QALGOMAX);
    double qa = symd("qa"), qm = symd("qm"), qc = symd("qc"); SYM_ASSUME(qa > 0.01 && qa < 100 && qc > -100 && qc < 100);
    if (algo == 0) {
      double x0 = symd("x0"); SYM_ASSUME(x0 > -100 && x0 < 100 && !(x0 == 0) && qm > -100 && qm < 100 && !(qm == x0) && !(qm == 0));
      auto f = make_shared<Obj>(x0, 12); f->quad = true; f->qa = qa; f->qm = qm; f->qc = qc;
      NewtonOneDimension opt(f); quiet(opt); opt.setConstraintPolicy(AutoParameter::CONSTRAINTS_KEEP); opt.setMaximumNumberOfEvaluations(6); opt.init(f->getParameters());
      double r = opt.optimize(); double xr = opt.getParameters()[0].getValue();
      SYM_ASSERT_EQ(xr, qm, "Newton on a strictly convex quadratic did not reach the minimiser");
      SYM_ASSERT_EQ(r, qc, "Newton on a strictly convex quadratic did not return the minimum"); SYM_ASSERT(f->X() == xr, "objective is not left at the reported point");
    } else if (algo == 2) {
      // golden section from [0,1] (outward bracketing first), minimiser anywhere in (-5,5): on termination the bracket [x0,x3] has relative width <= tol and contains the minimiser
      double tol = 0.2; SYM_ASSUME(qm > -5 && qm < 5 && (qm > 0.05 || qm < -0.05));
      auto f = make_shared<Obj>(0.5, 40); f->quad = true; f->qa = qa; f->qm = qm; f->qc = qc;
      GoldenSectionSearch opt(f); quiet(opt); opt.setInitialInterval(0, 1); opt.setConstraintPolicy(AutoParameter::CONSTRAINTS_KEEP);
      opt.getStopCondition()->setTolerance(tol); opt.setMaximumNumberOfEvaluations(30); opt.init(f->getParameters());
      double r = opt.optimize(); double xr = opt.getParameters()[0].getValue();
      SYM_ASSERT(opt.isToleranceReached(), "golden section on a strictly convex quadratic did not converge within 30 steps at tolerance 0.2");
      SYM_ASSERT(fabs(xr - qm) <= 2 * tol * fabs(xr) / (1 - 2 * tol) + 1e-9, "golden section stopped further from the quadratic's minimiser than its stopping tolerance allows");
      SYM_ASSERT_EQ(r, f->valueAt(xr), "golden section: returned value is not the objective at the reported point (quadratic)"); SYM_ASSERT(f->X() == xr, "golden section: objective not left at the reported point (quadratic)");
      SYM_ASSERT(r <= f->valueAt(0.0) || r <= f->valueAt(1.0), "golden section ended on a worse value than at both ends of its initial interval (quadratic)");   /* the parameter's own starting value is documented as unused by this optimiser; an end point that is the exact minimiser cannot be improved on */
    } else {
      // Brent with inward bracketing on [0,1], minimiser inside; stopping tolerance 0.05 (forked: 0.2): on termination the minimiser is within tol2 = 2(tol|x|+ZEPS) of the reported point
      static const double TOLS[2] = {0.05, 0.2}; double tol = TOLS[__sym_choose("tolerance", 0, 1)];
      SYM_ASSUME(qm > 0.02 && qm < 0.98); double p0 = 0.5;
      auto f = make_shared<Obj>(p0, 30); f->quad = true; f->qa = qa; f->qm = qm; f->qc = qc;
      BrentOneDimension opt(f); quiet(opt); opt.setBracketing(BrentOneDimension::BRACKET_INWARD); opt.setInitialInterval(0, 1); opt.setConstraintPolicy(AutoParameter::CONSTRAINTS_KEEP);
      opt.getStopCondition()->setTolerance(tol); opt.setMaximumNumberOfEvaluations(25); opt.init(f->getParameters());
      double r = opt.optimize(); double xr = opt.getParameters()[0].getValue();
      SYM_ASSERT(opt.isToleranceReached(), "Brent on a strictly convex quadratic did not converge within 25 steps at tolerance >= 0.05");
      SYM_ASSERT(fabs(xr - qm) <= 2 * (tol * fabs(xr) + 1e-10) + 1e-9, "Brent stopped further from the quadratic's minimiser than its stopping tolerance allows");
      SYM_ASSERT_EQ(r, f->valueAt(xr), "Brent: returned value is not the objective at the reported point (quadratic)"); SYM_ASSERT(r <= f->valueAt(p0), "Brent ended worse than it started (quadratic)");
    }
  } else {
    // ---- backtracking line search: up to three steps ----
    double slope = symd("slope"); SYM_ASSUME(slope < 0 && slope > -100);
    auto f = make_shared<Obj>(0.5, 6);
    NewtonBacktrackOneDimension opt(f, slope, 1.0); quiet(opt); opt.setConstraintPolicy(AutoParameter::CONSTRAINTS_KEEP);
    ParameterList pl; pl.addParameter(Parameter("x", 0.0)); opt.init(pl);
    int steps = __sym_choose("steps", 1, 3);
    for (int s = 0; s < steps && !opt.isToleranceReached(); s++) { double r = opt.step(); double xr = opt.getParameters()[0].getValue(); SYM_ASSERT_EQ(r, F(xr), "backtracking: returned value is not the objective at the reported step length");
      SYM_ASSERT(xr >= 0 && xr <= 1, "backtracking: step length outside [0,1]"); if (opt.isToleranceReached()) SYM_ASSERT(r <= F(0.0), "backtracking stopped on a value above the starting value"); }
  }
}
