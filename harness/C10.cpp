// C10: one-dimensional optimisers and bracketing on an arbitrary (uninterpreted) objective (REAL mode).
// The objective, its first and second derivative are uninterpreted functions: every claim holds for all objectives. Evaluation budgets bound the exploration.
#include <Bpp/Numeric/Function/OneDimensionOptimizationTools.h>
#include <Bpp/Numeric/Function/BrentOneDimension.h>
#include <Bpp/Numeric/Function/GoldenSectionSearch.h>
#include <Bpp/Numeric/Function/NewtonOneDimension.h>
#include <Bpp/Numeric/Function/NewtonBacktrackOneDimension.h>
#include <Bpp/Numeric/Function/Functions.h>
#include <Bpp/Numeric/AbstractParametrizable.h>
#include <Bpp/Numeric/AutoParameter.h>
#include <Bpp/Numeric/Constraints.h>
#include <Bpp/App/ApplicationTools.h>
#include "symrt.h"
#include <memory>
#include <cmath>
#include <vector>
using namespace bpp;
using namespace std;
#ifndef EVALMAX
#define EVALMAX 6
#endif

class Obj : public virtual SecondOrderDerivable, public AbstractParametrizable {
public:
  mutable int evals = 0; int budget; bool boxed; double lo, hi;
  Obj(double x0, int budget_, bool boxed_ = false, double l = 0, double u = 0) : AbstractParametrizable(""), budget(budget_), boxed(boxed_), lo(l), hi(u) {
    if (boxed) addParameter_(new Parameter("x", x0, make_shared<IntervalConstraint>(l, u, true, true))); else addParameter_(new Parameter("x", x0)); }
  Obj* clone() const override { return new Obj(*this); }
  void setParameters(const ParameterList& pl) override { matchParametersValues(pl); }
  double X() const { return getParameterValue("x"); }
  double getValue() const override { if (++evals > budget) __sym_prune();      // bounded exploration: runs needing more evaluations are outside the bound
    if (boxed) SYM_ASSERT(X() >= lo && X() <= hi, "objective evaluated outside its parameter's constraint");
    double v = __sym_apply("f", X()); SYM_ASSUME(v > -1e6 && v < 1e6);
#ifdef SEPARATE
    // generic-position variant: objective values at different points differ by more than 1e-3 and are of moderate size, so that a counterexample survives the
    // rounding of the native replay (the unrestricted variant of the same job covers ties)
    SYM_ASSUME(v > -100 && v < 100); bool seen = false; for (auto& pr : hist) if (pr.first == X()) seen = true; if (!seen) { for (auto& pr : hist) SYM_ASSUME(fabs(v - pr.second) > 1e-3); hist.push_back({X(), v}); }
#endif
    return v; }
  mutable std::vector<std::pair<double, double>> hist;
  void enableFirstOrderDerivatives(bool) override {} bool enableFirstOrderDerivatives() const override { return true; }
  void enableSecondOrderDerivatives(bool) override {} bool enableSecondOrderDerivatives() const override { return true; }
  double getFirstOrderDerivative(const string&) const override { double v = __sym_apply("df", X()); SYM_ASSUME(v > -1e6 && v < 1e6); return v; }
  double getSecondOrderDerivative(const string&) const override { double v = __sym_apply("d2f", X()); SYM_ASSUME(v > -1e6 && v < 1e6 && !(v == 0)); return v; }
  double getSecondOrderDerivative(const string&, const string&) const override { return 0; }
};
static double F(double x) { return __sym_apply("f", x); }
static void quiet(AbstractOptimizer& o) { o.setVerbose(0); o.setProfiler(nullptr); o.setMessageHandler(nullptr); }

extern "C" void verif_harness() {
  ApplicationTools::message = nullptr; ApplicationTools::warning = nullptr; ApplicationTools::error = nullptr;
  int which = __sym_choose("harness", HLO, HHI);
  if (which == 0) {
    // ---- inward bracketing: the middle point of the triple has the lowest value among all probed points ----
    double a = symd("a"), b = symd("b"); SYM_ASSUME(a < b && a > -100 && b < 100);
    int n = __sym_choose("intervals", 1, 4);
    Obj f(a, 20); ParameterList pl = f.getParameters();
    Bracket br = OneDimensionOptimizationTools::inwardBracketMinimum(a, b, f, pl, (unsigned)n);
    SYM_ASSERT(br.a.x == a && br.b.x == b, "inward bracketing moved the end points");
    SYM_ASSERT_EQ(br.a.f, F(a), "recorded value at a is not f(a)"); SYM_ASSERT_EQ(br.b.f, F(b), "recorded value at b is not f(b)"); SYM_ASSERT_EQ(br.c.f, F(br.c.x), "recorded value at the middle point is not f there");
    SYM_ASSERT(br.c.x >= a && br.c.x <= b, "middle point outside [a,b]");
    SYM_ASSERT(br.c.f <= br.a.f && br.c.f <= br.b.f, "middle point of the triple does not have the lowest value");
    for (int i = 0; i <= n; i++) SYM_ASSERT(br.c.f <= F(a + (b - a) / n * i), "a mesh point has a lower value than the returned middle point");
  } else if (which == 1) {
    // ---- outward bracketing from a concrete interval: whenever it returns within the evaluation budget, b is between a and c and has the lowest value ----
    static const double AS[2] = {0.0, -3.0}, BS[2] = {1.0, -2.0}; int k = __sym_choose("interval", 0, 1);
    Obj f(AS[k], EVALMAX); ParameterList pl = f.getParameters();
    Bracket br = OneDimensionOptimizationTools::bracketMinimum(AS[k], BS[k], f, pl);
    SYM_ASSERT_EQ(br.a.f, F(br.a.x), "recorded value at a is not f(a)"); SYM_ASSERT_EQ(br.b.f, F(br.b.x), "recorded value at b is not f(b)"); SYM_ASSERT_EQ(br.c.f, F(br.c.x), "recorded value at c is not f(c)");
    SYM_ASSERT((br.a.x < br.b.x && br.b.x < br.c.x) || (br.a.x > br.b.x && br.b.x > br.c.x), "bracketing triple is not ordered a, b, c");
    SYM_ASSERT(br.b.f <= br.a.f && br.b.f <= br.c.f, "middle point of the bracketing triple does not have the lowest value");
  } else if (which == 2) {
    // ---- Newton 1-D: one step from an arbitrary point ----
    int boxed = __sym_choose("constrained", 0, 1); double lo = 0, hi = 0, x0 = symd("x0"); SYM_ASSUME(x0 > -100 && x0 < 100 && !(x0 == 0));
    if (boxed) { lo = symd("lo"); hi = symd("hi"); SYM_ASSUME(lo < hi && x0 >= lo && x0 <= hi); }
    auto f = make_shared<Obj>(x0, 14, boxed, lo, hi);
    NewtonOneDimension opt(f); quiet(opt); opt.setConstraintPolicy(boxed ? AutoParameter::CONSTRAINTS_AUTO : AutoParameter::CONSTRAINTS_KEEP);
    opt.init(f->getParameters());
    double before = F(x0);
    double r = opt.step();
    double xr = opt.getParameters()[0].getValue();
    SYM_ASSERT(r <= before, "Newton step ended on a worse value than it started from");
    SYM_ASSERT_EQ(r, F(xr), "value returned by the Newton step is not the objective at the reported point");
    SYM_ASSERT(f->X() == xr, "objective is not left at the reported point after a Newton step");
    if (boxed) SYM_ASSERT(xr >= lo && xr <= hi, "reported point violates the constraint");
    SYM_ASSERT_EQ(opt.getFunctionValue(), r, "getFunctionValue differs from the value returned by the step");
  } else if (which == 3 || which == 4) {
    // ---- Brent (inward bracketing) / golden section: whole runs under an evaluation budget, from a concrete initial interval ----
    int boxed = __sym_choose("constrained", 0, 1); double lo = -2, hi = 3;    // the constraint contains the initial interval [0,1]
    if (boxed) { lo = symd("lo"); hi = symd("hi"); SYM_ASSUME(lo <= 0 && hi >= 1); }
    double p0 = symd("p0"); SYM_ASSUME(p0 >= 0 && p0 <= 1 && !(p0 == 0));
    int steps = __sym_choose("maxSteps", 1, 3);
    auto f = make_shared<Obj>(p0, which == 3 ? 18 : EVALMAX + 3, boxed, lo, hi);
    double r, xr; unsigned int nev;
    if (which == 3) { BrentOneDimension opt(f); quiet(opt); opt.setBracketing(BrentOneDimension::BRACKET_INWARD); opt.setInitialInterval(0, 1); opt.setConstraintPolicy(boxed ? AutoParameter::CONSTRAINTS_AUTO : AutoParameter::CONSTRAINTS_KEEP);
      opt.setMaximumNumberOfEvaluations(steps + 1); opt.init(f->getParameters()); r = opt.optimize(); xr = opt.getParameters()[0].getValue(); nev = opt.getNumberOfEvaluations();
      SYM_ASSERT(r <= F(p0), "Brent ended on a worse value than the starting point's"); SYM_ASSERT_EQ(opt.getFunctionValue(), r, "getFunctionValue differs from the returned value"); }
    else { GoldenSectionSearch opt(f); quiet(opt); opt.setInitialInterval(0, 1); opt.setConstraintPolicy(boxed ? AutoParameter::CONSTRAINTS_AUTO : AutoParameter::CONSTRAINTS_KEEP);
      opt.setMaximumNumberOfEvaluations(steps + 1); opt.init(f->getParameters()); r = opt.optimize(); xr = opt.getParameters()[0].getValue(); nev = opt.getNumberOfEvaluations(); }
    SYM_ASSERT_EQ(r, F(xr), "value returned by the optimiser is not the objective at the reported point");
    SYM_ASSERT(f->X() == xr, "objective is not left at the reported point");
    (void)nev;
    if (boxed) SYM_ASSERT(xr >= lo && xr <= hi, "reported point violates the constraint");
  } else {
    // ---- backtracking line search: up to three steps ----
    double slope = symd("slope"); SYM_ASSUME(slope < 0 && slope > -100);
    auto f = make_shared<Obj>(0.5, 6);
    NewtonBacktrackOneDimension opt(f, slope, 1.0); quiet(opt); opt.setConstraintPolicy(AutoParameter::CONSTRAINTS_KEEP);
    ParameterList pl; pl.addParameter(Parameter("x", 0.0)); opt.init(pl);
    int steps = __sym_choose("steps", 1, 3);
    for (int s = 0; s < steps && !opt.isToleranceReached(); s++) { double r = opt.step(); double xr = opt.getParameters()[0].getValue(); SYM_ASSERT_EQ(r, F(xr), "backtracking: returned value is not the objective at the reported step length");
      SYM_ASSERT(xr >= 0 && xr <= 1, "backtracking: step length outside [0,1]"); if (opt.isToleranceReached()) SYM_ASSERT(r <= F(0.0), "backtracking stopped on a value above the starting value"); }
  }
}
