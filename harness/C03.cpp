// C03: aliased parameters track their source through every update, copy and renaming (REAL mode).
// The history (which call comes next, with which names) is forked; values and constraint bounds are solver variables.
// A small reference model (alias forest, independent set, namespace) is kept next to the real object.
#include <Bpp/Numeric/AbstractParameterAliasable.h>
#include <Bpp/Numeric/Constraints.h>
#include <Bpp/App/ApplicationTools.h>
#include "symrt.h"
#include <map>
#include <memory>
#include <algorithm>
using namespace bpp;
using namespace std;
#ifndef NPAR
#define NPAR 3
#endif
#ifndef NSTEPS
#define NSTEPS 2
#endif
#ifndef CKMAX
#define CKMAX 1
#endif
static const char* NM[] = {"a", "b", "c", "d", "e", "f"};

class Obj : public AbstractParameterAliasable {
public:
  int fired = 0;
  Obj(const string& ns) : AbstractParameterAliasable(ns) {}
  Obj* clone() const override { return new Obj(*this); }
  void add(Parameter* p) { addParameter_(p); }
  Parameter& par(const std::string& n) { return getParameter_(n); }
  void fireParameterChanged(const ParameterList&) override { fired++; }
};
struct PInfo { int ck; double l, u; };           // original constraint of each parameter (0 none, 1 closed interval)
struct Model { int n; vector<int> from; vector<bool> synced; string ns; vector<PInfo> c; vector<vector<int>> eff; };   // eff[k]: original constraints parameter k carries now (links merge them, un-aliasing does not give them back)
static bool inside(const PInfo& c, double x) { return c.ck == 0 || (x >= c.l && x <= c.u); }
static int rootOf(const Model& m, int j) { while (m.from[j] >= 0) j = m.from[j]; return j; }
static bool dependsOn(const Model& m, int i, int j) { for (int k = i; k >= 0; k = m.from[k]) if (k == j) return true; return false; }   // i is j or (transitively) aliased to j

static void checkState(Obj& o, const Model& m, const char* when) {
  // independent set = exactly the non-aliased parameters, under their current (namespaced) names, observing the very same objects
  size_t nind = 0;
  for (int j = 0; j < m.n; j++) {
    bool ind = m.from[j] < 0; if (ind) nind++;
    SYM_ASSERT(o.hasIndependentParameter(NM[j]) == ind, "independent-parameter membership differs from the alias relations");
    SYM_ASSERT(o.hasParameter(NM[j]), "a parameter disappeared");
    SYM_ASSERT(o.getParameters().hasParameter(m.ns + NM[j]), "parameter not found under its namespaced name");
    if (ind) SYM_ASSERT(o.getIndependentParameters().getParameterValue(m.ns + NM[j]) == o.getParameterValue(NM[j]), "independent list does not observe the object's own parameter");
  }
  SYM_ASSERT(o.getNumberOfIndependentParameters() == nind && o.getIndependentParameters().size() == nind, "number of independent parameters");
  for (int j = 0; j < m.n; j++) if (m.from[j] >= 0 && m.synced[j]) {
    double vb = o.getParameterValue(NM[j]), va = o.getParameterValue(NM[m.from[j]]);
    SYM_ASSERT(vb == va, "an aliased parameter differs from its source after the source was updated");
    SYM_ASSERT(inside(m.c[j], vb) && inside(m.c[m.from[j]], vb), "the common value violates a constraint one of the two parameters had");
  }
  (void)when;
}
static vector<double> snapshot(Obj& o, int n) { vector<double> v(n); for (int j = 0; j < n; j++) v[j] = o.getParameterValue(NM[j]); return v; }
// after an update through the public interface: every alias whose source value changed must now be equal to it
static void noteChanges(Obj& o, Model& m, const vector<double>& before) {
  vector<double> after = snapshot(o, m.n);
  for (int pass = 0; pass < m.n; pass++) for (int j = 0; j < m.n; j++) if (m.from[j] >= 0) { int i = m.from[j]; if (!(after[i] == before[i]) || (m.from[i] >= 0 && m.synced[i] && !(after[i] == before[i]))) m.synced[j] = true; }
}
// a fresh value acceptable for the whole alias group of root r (inside every original constraint of the group), different from the current one
static double groupValue(Obj& o, const Model& m, int r, const string& tag) {
  double x = symd(tag); SYM_ASSUME(x > 0);
  for (int j = 0; j < m.n; j++) if (rootOf(m, j) == r) { SYM_ASSUME(inside(m.c[j], x)); for (int q : m.eff[j]) SYM_ASSUME(inside(m.c[q], x)); }
  for (int j = 0; j < m.n; j++) if (rootOf(m, j) == r) SYM_ASSUME(x > o.getParameterValue(NM[j]));   // differs from every current value of the group: every member is really updated
  return x;
}

extern "C" void verif_harness() {
  ApplicationTools::message = nullptr; ApplicationTools::warning = nullptr; ApplicationTools::error = nullptr;
  int which = __sym_choose("harness", HLO, HHI);
  if (which == 2) {
    // ---- constraints of a linked pair: every combination of open/closed ends, symbolic bounds; the pair must accept exactly the values both original constraints accept ----
    struct I { int ck; bool il, iu; double l, u; } c[2];
    auto acc = [](const I& k, double x) { if (!k.ck) return true; bool lo = k.il ? (x >= k.l) : (x > k.l), hi = k.iu ? (x <= k.u) : (x < k.u); return lo && hi; };
    Obj o(""); double v[2];
    for (int j = 0; j < 2; j++) { c[j].ck = __sym_choose((string(NM[j]) + ".constraint").c_str(), 0, 1);
#ifdef PAIR_DISTINCT_VALUES
      v[j] = symd(string("v") + NM[j]);
#else
      v[j] = j ? v[0] : symd("v");      // quick tier: both parameters start from one common symbolic value (the constraint logic does not look at it beyond the membership precondition)
#endif

      if (c[j].ck) { c[j].il = __sym_choose((string(NM[j]) + ".inclLower").c_str(), 0, 1); c[j].iu = __sym_choose((string(NM[j]) + ".inclUpper").c_str(), 0, 1); c[j].l = symd(string("lo") + NM[j]); c[j].u = symd(string("hi") + NM[j]); } }
    // precondition of the property: the current values lie inside both constraints (so the intersection is not empty)
    for (int j = 0; j < 2; j++) for (int k = 0; k < 2; k++) SYM_ASSUME(acc(c[k], v[j]));
    for (int j = 0; j < 2; j++) o.add(c[j].ck ? new Parameter(NM[j], v[j], make_shared<IntervalConstraint>(c[j].l, c[j].u, c[j].il, c[j].iu)) : new Parameter(NM[j], v[j]));
    int shared = (c[0].ck && c[1].ck) ? __sym_choose("sameObject", 0, 1) : 0;      // both parameters may also hold the very same constraint object
    if (shared) { o.par(NM[1]).setConstraint(o.par(NM[0]).getConstraint()); c[1] = c[0]; SYM_ASSUME(acc(c[0], v[1])); }
    bool raised = false; try { o.aliasParameters(NM[0], NM[1]); } catch (Exception&) { raised = true; }
    SYM_ASSERT(!raised, "a legal alias request between constrained parameters was refused");
    SYM_ASSERT(o.getParameterValue(NM[0]) == v[0] && o.getParameterValue(NM[1]) == v[1], "linking changed a value");
    double t = symd("t"); bool both = acc(c[0], t) && acc(c[1], t);
    for (int j = 0; j < 2; j++) { const Parameter& p = o.parameter(NM[j]);
      // (an unconstrained alias of a constrained source may stay unconstrained: it only ever receives the source's values)
      if (c[j].ck || (j == 0 && c[1].ck)) SYM_ASSERT(p.hasConstraint(), "after linking a parameter lost its constraint, or the source did not take over the alias's"); if (!c[0].ck && !c[1].ck) SYM_ASSERT(!p.hasConstraint(), "after linking a parameter carries a constraint although neither had one");
      if (p.hasConstraint()) SYM_ASSERT(p.getConstraint()->isCorrect(t) == both, "after linking the pair does not accept exactly the values both original constraints accept"); }
    int tail = __sym_choose("tail", 0, 1);
#ifndef PAIR_DISTINCT_VALUES
    if (tail == 1) __sym_prune();    // the un-linking tail runs in the thorough tier
#endif
    if (tail == 0) {
    // an update of the source: accepted iff both original constraints accept it; then both hold it, otherwise nothing changes
    bool r2 = false; try { o.setParameterValue(NM[0], t); } catch (ConstraintException&) { r2 = true; }
    bool same = (t == v[0]);
    if (!same) SYM_ASSERT(r2 == !both, "update of the source: raise condition differs from 'one of the original constraints rejects the value'");
    if (r2) SYM_ASSERT(o.getParameterValue(NM[0]) == v[0] && o.getParameterValue(NM[1]) == v[1], "a refused update of the source changed a value");
    else if (!same) SYM_ASSERT(o.getParameterValue(NM[0]) == t && o.getParameterValue(NM[1]) == t, "an accepted update of the source did not reach both parameters");
    return; }
    // after un-linking each parameter still refuses what its own original constraint refused
    o.unaliasParameters(NM[0], NM[1]);
    double w = symd("w"); for (int j = 0; j < 2; j++) { bool r3 = false; double cur = o.getParameterValue(NM[j]); try { o.setParameterValue(NM[j], w); } catch (ConstraintException&) { r3 = true; }
      if (!acc(c[j], w) && !(w == cur)) SYM_ASSERT(r3, "after un-linking a parameter accepts a value its own original constraint rejects"); if (r3) SYM_ASSERT(o.getParameterValue(NM[j]) == cur, "a refused update changed the value"); }
    return;
  }
  int n = NPAR;
  int nsInit = __sym_choose("namespace", 0, 1);
  Model m; m.n = n; m.from.assign(n, -1); m.synced.assign(n, false); m.ns = nsInit ? "N." : ""; m.c.resize(n); m.eff.resize(n);
  unique_ptr<Obj> holder(new Obj(m.ns)); Obj* o = holder.get();
  for (int j = 0; j < n; j++) { double v = symd(string("v") + NM[j]); SYM_ASSUME(v > 0);
#ifdef UNCONSTRAINED_LAST
    m.c[j].ck = (j == n - 1) ? 0 : __sym_choose((string(NM[j]) + ".constraint").c_str(), 0, CKMAX);    // quick tier of the 3-call histories: the last parameter carries no constraint
#else
    m.c[j].ck = __sym_choose((string(NM[j]) + ".constraint").c_str(), 0, CKMAX);
#endif
 m.c[j].l = m.c[j].u = 0; if (m.c[j].ck) m.eff[j].push_back(j);
    if (m.c[j].ck) { m.c[j].l = symd(string("lo") + NM[j]); m.c[j].u = symd(string("hi") + NM[j]); SYM_ASSUME(inside(m.c[j], v)); o->add(new Parameter(m.ns + NM[j], v, make_shared<IntervalConstraint>(m.c[j].l, m.c[j].u, true, true))); }
    else o->add(new Parameter(m.ns + NM[j], v)); }
  checkState(*o, m, "initial");
  vector<unique_ptr<Obj>> keepAlive; vector<pair<Obj*, vector<double>>> frozen;   // originals left behind by copy/assign: must never move again
  if (which == 0) {
    for (int step = 0; step < NSTEPS; step++) {
      string s = to_string(step);
      int op = __sym_choose(("op" + s).c_str(), 0, 7);
#ifdef FIRST_ALIAS
      if (step < FIRST_ALIAS && op != 0) __sym_prune();
#endif
      vector<double> before = snapshot(*o, n);
      if (op == 0 || op == 1) {                 // alias j to i / unalias
        int i = __sym_choose(("i" + s).c_str(), 0, n - 1), j = __sym_choose(("j" + s).c_str(), 0, n - 1);
        bool raised = false;
        if (op == 0) {
          // the two constraints must have a common point for the link to make sense (the property speaks of values inside the intersection)
          if (m.c[i].ck && m.c[j].ck) SYM_ASSUME(m.c[i].l <= m.c[j].u && m.c[j].l <= m.c[i].u);
          bool legal = (m.from[j] < 0) && !dependsOn(m, i, j);
          // precondition of the property: the current values of both alias groups lie inside every constraint the link will make them share
          if (legal) for (int k = 0; k < n; k++) if (rootOf(m, k) == rootOf(m, i) || rootOf(m, k) == rootOf(m, j)) for (int q = 0; q < n; q++) if (rootOf(m, q) == rootOf(m, i) || rootOf(m, q) == rootOf(m, j)) { SYM_ASSUME(inside(m.c[k], before[q])); for (int e : m.eff[k]) SYM_ASSUME(inside(m.c[e], before[q])); }
          if (legal) for (int e1 : m.eff[i]) for (int e2 : m.eff[j]) SYM_ASSUME(m.c[e1].l <= m.c[e2].u && m.c[e2].l <= m.c[e1].u);
          try { o->aliasParameters(NM[i], NM[j]); } catch (Exception&) { raised = true; }
          if (!legal) { SYM_ASSERT(raised, "aliasing a parameter twice / closing a cycle was not refused"); }
          else { SYM_ASSERT(!raised, "a legal alias request was refused"); m.from[j] = i; m.synced[j] = false;
            if (m.eff[i].empty()) m.eff[i] = m.eff[j]; else if (!m.eff[j].empty()) { vector<int> u = m.eff[i]; for (int q : m.eff[j]) if (find(u.begin(), u.end(), q) == u.end()) u.push_back(q); m.eff[i] = m.eff[j] = u; } }
          if (raised) { vector<double> after = snapshot(*o, n); for (int k = 0; k < n; k++) SYM_ASSERT(after[k] == before[k], "a refused alias request changed a value"); }
        } else {
          bool legal = (m.from[j] == i);
          try { o->unaliasParameters(NM[i], NM[j]); } catch (Exception&) { raised = true; }
          SYM_ASSERT(raised == !legal, "unalias: raise condition differs from 'this link exists'");
          if (legal) { m.from[j] = -1; m.synced[j] = false; }
          vector<double> after = snapshot(*o, n); for (int k = 0; k < n; k++) SYM_ASSERT(after[k] == before[k], "unalias changed a value");
        }
      } else if (op == 2) {                     // set one independent parameter by name
        int i = __sym_choose(("i" + s).c_str(), 0, n - 1); if (m.from[i] >= 0) __sym_prune();
        double x = groupValue(*o, m, i, "x" + s);
        o->setParameterValue(NM[i], x);
        SYM_ASSERT(o->getParameterValue(NM[i]) == x, "set-by-name did not apply the value");
        noteChanges(*o, m, before);
      } else if (op == 3 || op == 4) {          // bulk set / match of all independent parameters (one fresh value per alias group)
        ParameterList pl; vector<pair<int, double>> want;
        for (int i = 0; i < n; i++) if (m.from[i] < 0) { double x = groupValue(*o, m, i, "x" + s + NM[i]); pl.addParameter(Parameter(m.ns + NM[i], x)); want.push_back({i, x}); }
        if (op == 3) o->setParametersValues(pl); else { pl.addParameter(Parameter("unknown.name", 1.0)); o->matchParametersValues(pl); }
        for (auto& w : want) SYM_ASSERT(o->getParameterValue(NM[w.first]) == w.second, "bulk update did not apply a value");
        noteChanges(*o, m, before);
      } else if (op == 5) {                     // copy-construct (or clone) and go on with the copy
        int viaClone = __sym_choose(("clone" + s).c_str(), 0, 1);
        frozen.push_back({o, snapshot(*o, n)});
        Obj* c = viaClone ? o->clone() : new Obj(*o); keepAlive.emplace_back(c); o = c;
        vector<double> after = snapshot(*o, n); for (int k = 0; k < n; k++) SYM_ASSERT(after[k] == before[k], "a copy has other values than its source");
      } else if (op == 6) {                     // assign into an object that had its own parameters / alias relations
        int pre = __sym_choose(("targetHadAlias" + s).c_str(), 0, 1);
        Obj* d = new Obj(m.ns); keepAlive.emplace_back(d);
        for (int j = 0; j < n; j++) d->add(new Parameter(m.ns + NM[j], 1.0 + j));
        if (pre) d->aliasParameters(NM[n - 1], NM[0]);
        frozen.push_back({o, snapshot(*o, n)});
        *d = *o; o = d;
        vector<double> after = snapshot(*o, n); for (int k = 0; k < n; k++) SYM_ASSERT(after[k] == before[k], "an assigned object has other values than its source");
      } else {                                  // rename the namespace
        m.ns = (m.ns == "N.") ? "M." : (m.ns == "M." ? "" : "N.");
        o->setNamespace(m.ns);
        SYM_ASSERT(o->getNamespace() == m.ns, "namespace not stored");
      }
      checkState(*o, m, "after step");
      for (auto& f : frozen) { vector<double> now = snapshot(*f.first, n); for (int k = 0; k < n; k++) SYM_ASSERT(now[k] == f.second[k], "acting on a copy / assigned object changed the object it came from"); }
    }
    // closing probe: move every root once more; all aliases must follow, originals must stay put
    vector<double> before = snapshot(*o, n);
    for (int i = 0; i < n; i++) if (m.from[i] < 0) { bool hasKids = false; for (int j = 0; j < n; j++) if (j != i && rootOf(m, j) == i) hasKids = true; if (!hasKids) continue;
      double x = groupValue(*o, m, i, string("final") + NM[i]); o->setParameterValue(NM[i], x);
      for (int j = 0; j < n; j++) if (rootOf(m, j) == i) SYM_ASSERT(o->getParameterValue(NM[j]) == x, "an aliased parameter did not follow its source (possibly through a chain) at the closing probe"); }
    for (auto& f : frozen) { vector<double> now = snapshot(*f.first, n); for (int k = 0; k < n; k++) SYM_ASSERT(now[k] == f.second[k], "the closing probe on a copy changed the object it came from"); }
  } else {
    // ---- bulk aliasing from a name map: terminates for every map, performs the links or raises ----
    if (nsInit) return;     // the map form passes full names on: it is only usable with the empty namespace
    __sym_watchdog(5.0, "bulk aliasing from a name map did not terminate");
    map<string, string> mp; vector<int> tgt(n, -1);
    for (int j = 0; j < n; j++) { int t = __sym_choose((string("map.") + NM[j]).c_str(), -1, n); if (t == -1) continue; tgt[j] = t; mp[NM[j]] = t < n ? NM[t] : "nowhere"; }
    bool unknownSrc = false, self = false; for (int j = 0; j < n; j++) { if (tgt[j] == n) unknownSrc = true; if (tgt[j] == j) self = true; }
    bool cyc = false; for (int j = 0; j < n; j++) { int k = j, steps = 0; while (k >= 0 && k < n && tgt[k] >= 0 && steps <= n) { k = tgt[k]; steps++; if (k == j) cyc = true; } }
    for (int j = 0; j < n; j++) if (tgt[j] >= 0 && tgt[j] < n && m.c[j].ck && m.c[tgt[j]].ck) SYM_ASSUME(m.c[j].l <= m.c[tgt[j]].u && m.c[tgt[j]].l <= m.c[j].u);
    vector<double> before = snapshot(*o, n);
    for (int k = 0; k < n; k++) for (int q = 0; q < n; q++) SYM_ASSUME(inside(m.c[k], before[q]));   // values inside the (intersected) constraints
    bool raised = false;
    try { o->aliasParameters(mp, false); } catch (Exception&) { raised = true; }
    __sym_watchdog(0, "");
    if (unknownSrc || cyc || self) { SYM_ASSERT(raised, "a name map with an unknown source or a cycle did not raise"); return; }
    SYM_ASSERT(!raised, "a legal name map was refused");
    for (int j = 0; j < n; j++) if (tgt[j] >= 0) { m.from[j] = tgt[j]; }
    { vector<int> all; for (int j = 0; j < n; j++) if (m.c[j].ck) all.push_back(j); for (int j = 0; j < n; j++) m.eff[j] = all; }   // conservative: probe values lie inside every constraint
    for (int j = 0; j < n; j++) if (m.from[j] >= 0) { int r = rootOf(m, j); SYM_ASSERT(o->getParameterValue(NM[j]) == before[r], "after bulk aliasing an alias does not carry the value of its (root) source"); m.synced[j] = true; }
    for (int j = 0; j < n; j++) if (m.from[j] >= 0) m.synced[j] = false;   // constraints of a chain are only pairwise intersected: do not demand the group constraint here
    checkState(*o, m, "after bulk alias");
    for (int i = 0; i < n; i++) if (m.from[i] < 0) { bool hasKids = false; for (int j = 0; j < n; j++) if (j != i && rootOf(m, j) == i) hasKids = true; if (!hasKids) continue;
      double x = groupValue(*o, m, i, string("final") + NM[i]); o->setParameterValue(NM[i], x);
      for (int j = 0; j < n; j++) if (rootOf(m, j) == i) SYM_ASSERT(o->getParameterValue(NM[j]) == x, "after bulk aliasing an alias did not follow its source"); }
  }
}
