// C04: matrix operations match their textbook definitions for every shape and storage layout (REAL mode).
// Shapes and storage classes are forked; all entries are solver variables; reference results are plain loops below.
#include "hmat.h"
#include <Bpp/Numeric/Matrix/LUDecomposition.h>
#include <algorithm>
using namespace std;
#ifndef DMAX
#define DMAX 2
#endif
#ifndef PMAX
#define PMAX 5
#endif
#ifndef LAPMAX
#define LAPMAX 3
#endif
typedef vector<vector<double>> VV;
static VV vals(const Matrix<double>& M) { VV v(M.getNumberOfRows(), vector<double>(M.getNumberOfColumns())); for (size_t i = 0; i < v.size(); i++) for (size_t j = 0; j < v[i].size(); j++) v[i][j] = M(i, j); return v; }
// Shapes: either every dimension of the case is zero (0x0 operands) or all are in 1..DMAX.  A shape with exactly one zero
// dimension cannot be represented by the row-/column-vector based classes (an r x 0 ColMatrix reports 0 rows), so it is outside the claim.
static int g_zero = 0;
static int dimc(const string& n, int lo = 0) { if (g_zero) { if (lo > 0) __sym_prune(); return 0; } return __sym_choose(n.c_str(), 1, DMAX); }
static MP anyM(const string& tag, int r, int c) { MP M = mkMatrix(anyKind(tag), r, c); fillSym(*M, tag); return M; }
// output operand: some storage class, a wrong shape with junk in it (the routine must resize and overwrite)
static MP outM(const string& tag) { MP M = mkMatrix(anyKind(tag), 1, 2); (*M)(0, 0) = 7; (*M)(0, 1) = -7; return M; }
static vector<double> anyV(const string& tag, int n) { vector<double> v(n); for (int i = 0; i < n; i++) v[i] = symd(tag + to_string(i)); return v; }
static void sameShape(const Matrix<double>& O, size_t r, size_t c, const char* msg) { SYM_ASSERT(O.getNumberOfRows() == r && O.getNumberOfColumns() == c, msg); }
static void sameAs(const Matrix<double>& O, const VV& ref, size_t r, size_t c, const char* msgShape, const char* msgVal) {
  sameShape(O, r, c, msgShape);
  for (size_t i = 0; i < r; i++) for (size_t j = 0; j < c; j++) SYM_ASSERT_EQ(O(i, j), ref[i][j], msgVal);
}
#define EXPECT_DIM(stmt, msg) { bool thrown_ = false; try { stmt; } catch (DimensionException&) { thrown_ = true; } SYM_ASSERT(thrown_, msg); }

extern "C" void verif_harness() {
  int which = __sym_choose("harness", HLO, HHI);
  g_zero = __sym_choose("allZero", 0, 1);
  switch (which) {
  case 0: {  // plain product
    int r = dimc("r"), k = dimc("k"), k2 = dimc("k2"), c = dimc("c");
    MP A = anyM("a", r, k), B = anyM("b", k2, c), O = outM("o");
    if (k != k2) { EXPECT_DIM(MatrixTools::mult(*A, *B, *O), "product of non-conformable matrices did not raise a dimension error"); break; }
    MatrixTools::mult(*A, *B, *O);
    VV ref(r, vector<double>(c, 0.0));
    for (int i = 0; i < r; i++) for (int j = 0; j < c; j++) for (int t = 0; t < k; t++) ref[i][j] += (*A)(i, t) * (*B)(t, j);
    sameAs(*O, ref, r, c, "product: wrong output shape", "product: entry differs from sum_k A(i,k)B(k,j)");
    break; }
  case 1: {  // product on real/imaginary pairs
    int r = dimc("r"), k = dimc("k"), k2 = dimc("k2"), c = dimc("c");
    int ks = anyKind("all");     // one storage class for the six operands per path (all three are forked)
    MP A = mkMatrix(ks, r, k), iA = mkMatrix((ks + 1) % 3, r, k), B = mkMatrix((ks + 2) % 3, k2, c), iB = mkMatrix(ks, k2, c), O = outM("o"), iO = outM("io");
    fillSym(*A, "a"); fillSym(*iA, "ia"); fillSym(*B, "b"); fillSym(*iB, "ib");
    if (k != k2) { EXPECT_DIM(MatrixTools::mult(*A, *iA, *B, *iB, *O, *iO), "complex product of non-conformable matrices did not raise"); break; }
    MatrixTools::mult(*A, *iA, *B, *iB, *O, *iO);
    VV re(r, vector<double>(c, 0.0)), im(r, vector<double>(c, 0.0));
    for (int i = 0; i < r; i++) for (int j = 0; j < c; j++) for (int t = 0; t < k; t++) { re[i][j] += (*A)(i, t) * (*B)(t, j) - (*iA)(i, t) * (*iB)(t, j); im[i][j] += (*A)(i, t) * (*iB)(t, j) + (*iA)(i, t) * (*B)(t, j); }
    sameAs(*O, re, r, c, "complex product: wrong shape of the real part", "complex product: real part differs");
    sameAs(*iO, im, r, c, "complex product: wrong shape of the imaginary part", "complex product: imaginary part differs");
    break; }
  case 2: {  // product with a diagonal middle factor
    int r = dimc("r"), k = dimc("k"), k2 = dimc("k2"), c = dimc("c"), nd = dimc("nd");
    MP A = anyM("a", r, k), B = anyM("b", k2, c), O = outM("o"); vector<double> D = anyV("d", nd);
    if (k != k2 || nd != k) { EXPECT_DIM(MatrixTools::mult(*A, D, *B, *O), "A.diag(D).B with non-conformable operands did not raise"); break; }
    MatrixTools::mult(*A, D, *B, *O);
    VV ref(r, vector<double>(c, 0.0));
    for (int i = 0; i < r; i++) for (int j = 0; j < c; j++) for (int t = 0; t < k; t++) ref[i][j] += (*A)(i, t) * D[t] * (*B)(t, j);
    sameAs(*O, ref, r, c, "A.diag(D).B: wrong output shape", "A.diag(D).B: entry differs");
    break; }
  case 3: {  // complex product with a diagonal middle factor
    int r = dimc("r"), k = dimc("k"), k2 = dimc("k2"), c = dimc("c"), nd = dimc("nd");
    int ks = anyKind("all");
    MP A = mkMatrix(ks, r, k), iA = mkMatrix((ks + 1) % 3, r, k), B = mkMatrix((ks + 2) % 3, k2, c), iB = mkMatrix(ks, k2, c), O = outM("o"), iO = outM("io");
    fillSym(*A, "a"); fillSym(*iA, "ia"); fillSym(*B, "b"); fillSym(*iB, "ib"); vector<double> D = anyV("d", nd), iD = anyV("id", nd);
    if (k != k2 || nd != k) { EXPECT_DIM(MatrixTools::mult(*A, *iA, D, iD, *B, *iB, *O, *iO), "complex A.D.B with non-conformable operands did not raise"); break; }
    MatrixTools::mult(*A, *iA, D, iD, *B, *iB, *O, *iO);
    VV re(r, vector<double>(c, 0.0)), im(r, vector<double>(c, 0.0));
    for (int i = 0; i < r; i++) for (int j = 0; j < c; j++) for (int t = 0; t < k; t++) {
      double ar = (*A)(i, t), ai = (*iA)(i, t), br = (*B)(t, j), bi = (*iB)(t, j), dr = D[t], di = iD[t];
      double xr = ar * dr - ai * di, xi = ar * di + ai * dr;     // (a.d)
      re[i][j] += xr * br - xi * bi; im[i][j] += xr * bi + xi * br; }
    sameAs(*O, re, r, c, "complex A.D.B: wrong shape of the real part", "complex A.D.B: real part differs");
    sameAs(*iO, im, r, c, "complex A.D.B: wrong shape of the imaginary part", "complex A.D.B: imaginary part differs");
    break; }
  case 4: {  // product with a tridiagonal middle factor
    int r = dimc("r"), k = dimc("k"), k2 = dimc("k2"), c = dimc("c");
    int nd = dimc("nd"), nu = dimc("nu"), nl = dimc("nl");
    MP A = anyM("a", r, k), B = anyM("b", k2, c), O = outM("o");
    vector<double> D = anyV("d", nd), U = anyV("u", nu), L = anyV("l", nl);
    if (k != k2 || nd != k || nu + 1 != k || nl + 1 != k) { EXPECT_DIM(MatrixTools::mult(*A, D, U, L, *B, *O), "tridiagonal product with non-conformable operands did not raise"); break; }
    MatrixTools::mult(*A, D, U, L, *B, *O);
    VV T(k, vector<double>(k, 0.0));
    for (int t = 0; t < k; t++) { T[t][t] = D[t]; if (t + 1 < k) { T[t][t + 1] = U[t]; T[t + 1][t] = L[t]; } }
    VV ref(r, vector<double>(c, 0.0));
    for (int i = 0; i < r; i++) for (int j = 0; j < c; j++) for (int s = 0; s < k; s++) for (int t = 0; t < k; t++) ref[i][j] += (*A)(i, s) * T[s][t] * (*B)(t, j);
    sameAs(*O, ref, r, c, "tridiagonal product: wrong output shape", "tridiagonal product: entry differs from A.(L+D+U).B");
    break; }
  case 5: {  // sum and scaled sum (in place)
    int r = dimc("r"), c = dimc("c"), r2 = dimc("r2"), c2 = dimc("c2");
    int form = __sym_choose("form", 0, 1);
    MP A = anyM("a", r, c), B = anyM("b", r2, c2); VV a0 = vals(*A); double x = symd("x");
    if (r != r2 || c != c2) {
      if (r <= r2 && c <= c2) __sym_label("A-fits-inside-B");
      if (form == 0) { EXPECT_DIM(MatrixTools::add(*A, *B), "sum of matrices of different shapes did not raise a dimension error"); }
      else { EXPECT_DIM(MatrixTools::add(*A, x, *B), "scaled sum of matrices of different shapes did not raise a dimension error"); }
      break; }
    if (form == 0) MatrixTools::add(*A, *B); else MatrixTools::add(*A, x, *B);
    sameShape(*A, r, c, "sum changed the shape of its first operand");
    for (int i = 0; i < r; i++) for (int j = 0; j < c; j++) SYM_ASSERT_EQ((*A)(i, j), form == 0 ? a0[i][j] + (*B)(i, j) : a0[i][j] + x * (*B)(i, j), "sum: entry differs");
    break; }
  case 6: {  // scaling, fill, identity, diagonal helpers, copy
    int r = dimc("r"), c = dimc("c");
    MP A = anyM("a", r, c); VV a0 = vals(*A); double s = symd("s"), t = symd("t");
    int viaDefault = __sym_choose("defaultShift", 0, 1);
    if (viaDefault) MatrixTools::scale(*A, s); else MatrixTools::scale(*A, s, t);
    sameShape(*A, r, c, "scale changed the shape");
    for (int i = 0; i < r; i++) for (int j = 0; j < c; j++) SYM_ASSERT_EQ((*A)(i, j), viaDefault ? s * a0[i][j] : s * a0[i][j] + t, "scale: entry differs from a*m+b");
    MP C = outM("o"); MatrixTools::copy(*A, *C); VV a1 = vals(*A); sameAs(*C, a1, r, c, "copy: wrong shape", "copy: entry differs");
    MatrixTools::fill(*C, t); for (int i = 0; i < r; i++) for (int j = 0; j < c; j++) SYM_ASSERT((*C)(i, j) == t, "fill: entry differs");
    MP I = outM("id"); MatrixTools::getId(r, *I); sameShape(*I, r, r, "identity: wrong shape");
    for (int i = 0; i < r; i++) for (int j = 0; j < r; j++) SYM_ASSERT((*I)(i, j) == (i == j ? 1.0 : 0.0), "identity: entry differs");
    vector<double> D = anyV("d", c); MP G = outM("g"); MatrixTools::diag(D, *G); sameShape(*G, c, c, "diag(vector): wrong shape");
    for (int i = 0; i < c; i++) for (int j = 0; j < c; j++) SYM_ASSERT((*G)(i, j) == (i == j ? D[i] : 0.0), "diag(vector): entry differs");
    MatrixTools::diag(s, (size_t)r, *G); sameShape(*G, r, r, "diag(scalar): wrong shape");
    for (int i = 0; i < r; i++) for (int j = 0; j < r; j++) SYM_ASSERT((*G)(i, j) == (i == j ? s : 0.0), "diag(scalar): entry differs");
    vector<double> dg(5, 1.0);
    if (r != c) { EXPECT_DIM(MatrixTools::diag(*A, dg), "diagonal of a non-square matrix did not raise"); }
    else { MatrixTools::diag(*A, dg); SYM_ASSERT((int)dg.size() == r, "diag(matrix): wrong length"); for (int i = 0; i < r; i++) SYM_ASSERT(dg[i] == (*A)(i, i), "diag(matrix): entry differs"); }
    break; }
  case 7: {  // transpose, symmetry test
    int r = dimc("r"), c = dimc("c");
    MP A = anyM("a", r, c), O = outM("o");
    MatrixTools::transpose(*A, *O); sameShape(*O, c, r, "transpose: wrong shape");
    for (int i = 0; i < r; i++) for (int j = 0; j < c; j++) SYM_ASSERT((*O)(j, i) == (*A)(i, j), "transpose: entry differs");
    bool sym = (r == c); for (int i = 0; i < r && sym; i++) for (int j = 0; j < c; j++) if (!((*A)(i, j) == (*A)(j, i))) { sym = false; break; }
    SYM_ASSERT(MatrixTools::isSymmetric(*A) == sym, "isSymmetric differs from A == transpose(A)");
    break; }
  case 8: {  // integer power and power series (concrete matrix classes: the templates need them)
    int n = dimc("n"), p = __sym_choose("p", 0, PMAX), ks = anyKind("A");
    if (n == 3 && p > 4) return;
    VV a(n, vector<double>(n)); for (int i = 0; i < n; i++) for (int j = 0; j < n; j++) a[i][j] = symd("a" + to_string(i) + to_string(j));
    VV ref(n, vector<double>(n, 0.0)); for (int i = 0; i < n; i++) ref[i][i] = 1;
    vector<VV> pw; pw.push_back(ref);
    for (int q = 0; q < p; q++) { VV nx(n, vector<double>(n, 0.0)); for (int i = 0; i < n; i++) for (int j = 0; j < n; j++) for (int t = 0; t < n; t++) nx[i][j] += ref[i][t] * a[t][j]; ref = nx; pw.push_back(ref); }
    if (ks == 0) { RowMatrix<double> A(n, n), O(1, 2); for (int i = 0; i < n; i++) for (int j = 0; j < n; j++) A(i, j) = a[i][j]; MatrixTools::pow(A, (size_t)p, O); sameAs(O, ref, n, n, "power: wrong shape", "power: entry differs from the repeated product");
      vector<RowMatrix<double>> vO; MatrixTools::Taylor(A, (size_t)p, vO); SYM_ASSERT((int)vO.size() == p + 1, "power series: wrong number of terms");
      for (int q = 0; q <= p; q++) sameAs(vO[q], pw[q], n, n, "power series: wrong shape of a term", "power series: term differs from A^q");
      if (n > 0) { RowMatrix<double> NS(n, n + 1), O2; EXPECT_DIM(MatrixTools::pow(NS, (size_t)p, O2), "power of a non-square matrix did not raise"); EXPECT_DIM(MatrixTools::Taylor(NS, (size_t)p, vO), "power series of a non-square matrix did not raise"); } }
    else if (ks == 1) { ColMatrix<double> A(n, n), O(1, 2); for (int i = 0; i < n; i++) for (int j = 0; j < n; j++) A(i, j) = a[i][j]; MatrixTools::pow(A, (size_t)p, O); sameAs(O, ref, n, n, "power: wrong shape", "power: entry differs from the repeated product"); }
    else { LinearMatrix<double> A(n, n), O(1, 2); for (int i = 0; i < n; i++) for (int j = 0; j < n; j++) A(i, j) = a[i][j]; MatrixTools::pow(A, (size_t)p, O); sameAs(O, ref, n, n, "power: wrong shape", "power: entry differs from the repeated product"); }
    break; }
  case 9: {  // Kronecker products
    int ra = dimc("ra"), ca = dimc("ca"), rb = dimc("rb"), cb = dimc("cb");
    int form = __sym_choose("form", 0, 2), presized = __sym_choose("presized", 0, 1);
    MP A = anyM("a", ra, ca), B = anyM("b", rb, cb); double dA = symd("dA"), dB = symd("dB");
    if (form == 1) { rb = cb; }     // A (x) v.Id(dim)
    MP O = presized ? mkMatrix(anyKind("o"), ra * rb, ca * cb) : outM("o");
    if (form == 0) MatrixTools::kroneckerMult(*A, *B, *O, !presized);
    else if (form == 1) MatrixTools::kroneckerMult(*A, (size_t)rb, dB, *O, !presized);
    else MatrixTools::kroneckerMult(*A, *B, dA, dB, *O, !presized);
    sameShape(*O, ra * rb, ca * cb, "Kronecker product: wrong output shape");
    for (int ia = 0; ia < ra; ia++) for (int ja = 0; ja < ca; ja++) for (int ib = 0; ib < rb; ib++) for (int jb = 0; jb < cb; jb++) {
      double x = (form == 2 && ia == ja) ? dA : (*A)(ia, ja);
      double y = form == 0 ? (*B)(ib, jb) : form == 1 ? (ib == jb ? dB : 0.0) : (ib == jb ? dB : (*B)(ib, jb));
      SYM_ASSERT_EQ((*O)(ia * rb + ib, ja * cb + jb), x * y, "Kronecker product: entry differs from a(i,j).b(k,l)"); }
    break; }
  case 10: { // Hadamard products
    int r = dimc("r"), c = dimc("c"), r2 = dimc("r2"), c2 = dimc("c2");
    int form = __sym_choose("form", 0, 3);
    if (form == 0) { MP A = anyM("a", r, c), B = anyM("b", r2, c2), O = outM("o");
      if (r != r2 || c != c2) { EXPECT_DIM(MatrixTools::hadamardMult(*A, *B, *O), "Hadamard product of different shapes did not raise"); break; }
      MatrixTools::hadamardMult(*A, *B, *O); sameShape(*O, r, c, "Hadamard product: wrong shape");
      for (int i = 0; i < r; i++) for (int j = 0; j < c; j++) SYM_ASSERT_EQ((*O)(i, j), (*A)(i, j) * (*B)(i, j), "Hadamard product: entry differs"); }
    else if (form == 1) { int ks = anyKind("all"); MP A = mkMatrix(ks, r, c), iA = mkMatrix((ks + 1) % 3, r, c), B = mkMatrix((ks + 2) % 3, r2, c2), iB = mkMatrix(ks, r2, c2), O = outM("o"), iO = outM("io");
      fillSym(*A, "a"); fillSym(*iA, "ia"); fillSym(*B, "b"); fillSym(*iB, "ib");
      if (r != r2 || c != c2) { EXPECT_DIM(MatrixTools::hadamardMult(*A, *iA, *B, *iB, *O, *iO), "complex Hadamard product of different shapes did not raise"); break; }
      MatrixTools::hadamardMult(*A, *iA, *B, *iB, *O, *iO); sameShape(*O, r, c, "complex Hadamard: wrong shape (real)"); sameShape(*iO, r, c, "complex Hadamard: wrong shape (imaginary)");
      for (int i = 0; i < r; i++) for (int j = 0; j < c; j++) { SYM_ASSERT_EQ((*O)(i, j), (*A)(i, j) * (*B)(i, j) - (*iA)(i, j) * (*iB)(i, j), "complex Hadamard: real part differs");
        SYM_ASSERT_EQ((*iO)(i, j), (*A)(i, j) * (*iB)(i, j) + (*iA)(i, j) * (*B)(i, j), "complex Hadamard: imaginary part differs"); } }
    else { bool row = form == 2; MP A = anyM("a", r, c), O = outM("o"); vector<double> w = anyV("w", r2);
      if ((row && r2 != r) || (!row && r2 != c)) { EXPECT_DIM(MatrixTools::hadamardMult(*A, w, *O, row), "weighting rows/columns with a vector of the wrong length did not raise"); break; }
      MatrixTools::hadamardMult(*A, w, *O, row); sameShape(*O, r, c, "row/column weighting: wrong shape");
      for (int i = 0; i < r; i++) for (int j = 0; j < c; j++) SYM_ASSERT_EQ((*O)(i, j), (*A)(i, j) * (row ? w[i] : w[j]), "row/column weighting: entry differs"); }
    break; }
  case 11: { // direct sums
    int ra = dimc("ra"), ca = dimc("ca"), rb = dimc("rb"), cb = dimc("cb");
    int form = __sym_choose("form", 0, 1);
    MP A = anyM("a", ra, ca), B = anyM("b", rb, cb), O = outM("o");
    int rc = 0, cc = 0; MP C;
    if (form == 0) MatrixTools::directSum(*A, *B, *O);
    else { rc = dimc("rc"); cc = dimc("cc"); C = anyM("c", rc, cc); vector<Matrix<double>*> v{A.get(), B.get(), C.get()}; MatrixTools::directSum(v, *O); }
    sameShape(*O, ra + rb + rc, ca + cb + cc, "direct sum: wrong output shape");
    for (int i = 0; i < ra + rb + rc; i++) for (int j = 0; j < ca + cb + cc; j++) {
      double want = 0;
      if (i < ra && j < ca) want = (*A)(i, j);
      else if (i >= ra && i < ra + rb && j >= ca && j < ca + cb) want = (*B)(i - ra, j - ca);
      else if (i >= ra + rb && j >= ca + cb) want = (*C)(i - ra - rb, j - ca - cb);
      SYM_ASSERT((*O)(i, j) == want, "direct sum: entry differs from the block-diagonal arrangement"); }
    break; }
  case 12: { // covariance of r variables observed n times (r x n input)
    int r = dimc("r"), n = dimc("n", 1);
    MP A = anyM("a", r, n), O = outM("o");
    MatrixTools::covar(*A, *O); sameShape(*O, r, r, "covariance: wrong output shape");
    vector<double> mu(r, 0.0); for (int i = 0; i < r; i++) { for (int t = 0; t < n; t++) mu[i] += (*A)(i, t); mu[i] = mu[i] / n; }
    for (int i = 0; i < r; i++) for (int j = 0; j < r; j++) { double s = 0; for (int t = 0; t < n; t++) s += ((*A)(i, t) - mu[i]) * ((*A)(j, t) - mu[j]); SYM_ASSERT_EQ((*O)(i, j), s / n, "covariance: entry differs from the mean product of deviations"); }
    break; }
  case 13: { // extremum search and element sums
    int r = dimc("r", 1), c = dimc("c", 1);
    MP A = anyM("a", r, c);
    double mx = MatrixTools::max(*A), mn = MatrixTools::min(*A);
    vector<size_t> pmx = MatrixTools::whichMax(*A), pmn = MatrixTools::whichMin(*A);
    SYM_ASSERT(pmx.size() == 2 && pmn.size() == 2 && pmx[0] < (size_t)r && pmx[1] < (size_t)c && pmn[0] < (size_t)r && pmn[1] < (size_t)c, "extremum position outside the matrix");
    double sum = 0;
    for (int i = 0; i < r; i++) for (int j = 0; j < c; j++) { SYM_ASSERT((*A)(i, j) <= mx, "max is not an upper bound of the entries"); SYM_ASSERT((*A)(i, j) >= mn, "min is not a lower bound of the entries"); sum += (*A)(i, j); }
    SYM_ASSERT((*A)(pmx[0], pmx[1]) == mx, "whichMax does not point at the maximum"); SYM_ASSERT((*A)(pmn[0], pmn[1]) == mn, "whichMin does not point at the minimum");
    SYM_ASSERT_EQ(MatrixTools::sumElements(*A), sum, "sumElements differs from the sum of the entries");
    MP E = mkMatrix(anyKind("e"), 0, 0); SYM_ASSERT(MatrixTools::sumElements(*E) == 0.0, "sum of an empty matrix is not zero");
    VV vv; MatrixTools::toVVdouble(*A, vv); SYM_ASSERT((int)vv.size() == r, "toVVdouble: wrong number of rows"); for (int i = 0; i < r; i++) { SYM_ASSERT((int)vv[i].size() == c, "toVVdouble: wrong row length"); for (int j = 0; j < c; j++) SYM_ASSERT(vv[i][j] == (*A)(i, j), "toVVdouble: entry differs"); }
    break; }
  default: { // linear assignment: permutation of minimal total cost, certified by the dual variables
    int n = __sym_choose("n", 1, LAPMAX);
    MP C = anyM("c", n, n); VV c0 = vals(*C);
    vector<int> rowSol(n, -5), colSol(n, -5); vector<double> u(n, 0.0), v(n, 0.0);
    double cost = MatrixTools::lap(*C, rowSol, colSol, u, v);
    vector<int> seen(n, 0); double tot = 0;
    for (int i = 0; i < n; i++) { SYM_ASSERT(rowSol[i] >= 0 && rowSol[i] < n, "assignment: column index out of range"); seen[rowSol[i]]++; tot += c0[i][rowSol[i]]; }
    for (int j = 0; j < n; j++) { SYM_ASSERT(seen[j] == 1, "assignment is not a permutation"); SYM_ASSERT(colSol[j] >= 0 && colSol[j] < n && rowSol[colSol[j]] == j, "column solution is not the inverse of the row solution"); }
    SYM_ASSERT_EQ(cost, tot, "returned cost is not the cost of the returned assignment");
    vector<int> perm(n); for (int i = 0; i < n; i++) perm[i] = i;
    do { double t = 0; for (int i = 0; i < n; i++) t += c0[i][perm[i]]; SYM_ASSERT(cost <= t, "assignment is not of minimal total cost"); } while (next_permutation(perm.begin(), perm.end()));
    for (int i = 0; i < n; i++) for (int j = 0; j < n; j++) SYM_ASSERT(u[i] + v[j] <= c0[i][j], "dual variables are not feasible (u_i + v_j > c_ij)");
    for (int i = 0; i < n; i++) SYM_ASSERT_EQ(u[i] + v[rowSol[i]], c0[i][rowSol[i]], "dual variables are not tight on the assignment");
    break; }
  }
}
