// C20: range collections behave as sets of points (double instantiation, all real end points).
#include <Bpp/Numeric/Range.h>
#include "symrt.h"
#include <string>
#include <vector>
using namespace bpp;
using namespace std;
#ifndef KMAX
#define KMAX 3
#endif
#ifndef NSTEPS
#define NSTEPS 1
#endif

struct R { double b, e; };
static bool in(double lo, double hi, double x) { return lo <= x && x < hi; }
static bool inAny(const vector<R>& v, double x) { bool r = false; for (auto& q : v) r = r || in(q.b, q.e, x); return r; }
template<class C> static vector<R> readBack(const C& c) { vector<R> v; for (size_t i = 0; i < c.size(); i++) v.push_back(R{c.getRange(i).begin(), c.getRange(i).end()}); return v; }
static void checkCanonical(const vector<R>& v, const char* where) {
  for (size_t i = 0; i < v.size(); i++) {
    SYM_ASSERT(v[i].b < v[i].e, "multi-range stores an empty or reversed range");
    if (i > 0) SYM_ASSERT(v[i - 1].e <= v[i].b, "multi-range ranges overlap or are out of order");
  }
  (void)where;
}
// arbitrary canonical state: k sorted, disjoint, non-empty ranges
static vector<R> anyCanonical(int k, const string& tag) {
  vector<R> v(k);
  for (int i = 0; i < k; i++) {
    v[i].b = symd(tag + "b" + to_string(i)); v[i].e = symd(tag + "e" + to_string(i));
    SYM_ASSUME(v[i].b < v[i].e); if (i > 0) SYM_ASSUME(v[i - 1].e <= v[i].b);
  }
  return v;
}

extern "C" void verif_harness() {
  int which = __sym_choose("harness", HLO, HHI);
  if (which == 0) {
    // Range primitives against interval arithmetic on half-open intervals
    double a = symd("a"), b = symd("b"), c = symd("c"), d = symd("d"), x = symd("x");
    Range<double> r(a, b), s(c, d);
    double rl = a < b ? a : b, rh = a < b ? b : a, sl = c < d ? c : d, sh = c < d ? d : c;
    SYM_ASSERT(r.begin() == rl && r.end() == rh, "reversed arguments are not normalised");
    SYM_ASSERT(r.isEmpty() == !(rl < rh), "isEmpty");
    SYM_ASSERT_EQ(r.length(), rh - rl, "length");
    int p = __sym_choose("pred", 0, 6);
    bool rne = rl < rh, sne = sl < sh;
    if (p == 0) { if (rne && sne) SYM_ASSERT(r.overlap(s) == (sl < rh && rl < sh), "overlap differs from non-empty intersection");
                  if (r.overlap(s) && rne && sne) { double m = (sl > rl ? sl : rl); SYM_ASSERT(in(rl, rh, m) && in(sl, sh, m), "overlap reported without a common point"); } }
    else if (p == 1) { if (sne) SYM_ASSERT(r.contains(s) == (rl <= sl && sh <= rh), "contains differs from set inclusion");
                       if (r.contains(s) && in(sl, sh, x)) SYM_ASSERT(in(rl, rh, x), "contains: a point of the inner range is outside"); }
    else if (p == 2) { SYM_ASSERT(r.isContiguous(s) == (sl == rh || sh == rl), "isContiguous"); }
    else if (p == 3) { Range<double> t(r); t.expandWith(s);
      bool touch = sl <= rh && sh >= rl;
      if (rne && sne) {
        if (touch) SYM_ASSERT(in(t.begin(), t.end(), x) == (x >= (rl < sl ? rl : sl) && x < (rh > sh ? rh : sh)), "expandWith: not the hull of two touching/overlapping ranges");
        else SYM_ASSERT(t == r, "expandWith changed the range although the other is apart");
      } }
    else if (p == 4) { Range<double> t(r); t.sliceWith(s);
      if (rne && sne) SYM_ASSERT((in(t.begin(), t.end(), x)) == (in(rl, rh, x) && in(sl, sh, x)), "sliceWith: not the intersection");
      if (rne && sne && !(sl < rh && rl < sh)) SYM_ASSERT(t.isEmpty(), "sliceWith of disjoint ranges is not empty"); }
    else if (p == 5) { double v = symd("shift"); Range<double> t = r + v; SYM_ASSERT_EQ(t.length(), r.length(), "shift changes the length");
      SYM_ASSERT_EQ(t.begin(), rl + v, "shift begin"); Range<double> u = t - v; SYM_ASSERT_EQ(u.begin(), rl, "shift back"); SYM_ASSERT_EQ(u.end(), rh, "shift back end");
      Range<double> w(r); w += v; SYM_ASSERT(w == t, "+= differs from +"); }
    else { Range<double> t(r); Range<double> u; u = r; SYM_ASSERT(t == r && u == r && !(t != r), "copy/assign/equality"); }
  } else if (which == 1) {
    // MultiRange: NSTEPS operations from an arbitrary canonical state of 0..KMAX ranges
    int k = __sym_choose("k", 0, KMAX);
    vector<R> st = anyCanonical(k, "");
    MultiRange<double> mr;
    for (int i = 0; i < k; i++) mr.addRange(Range<double>(st[i].b, st[i].e));
    { vector<R> got = readBack(mr); SYM_ASSERT((int)got.size() == k, "building a canonical state changed the number of ranges");
      for (int i = 0; i < k; i++) SYM_ASSERT(got[i].b == st[i].b && got[i].e == st[i].e, "building a canonical state changed a range"); }
    double x = symd("x");
    for (int step = 0; step < NSTEPS; step++) {
      string s = to_string(step);
      int op = __sym_choose(("op" + s).c_str(), 0, 4);
      bool inOld = inAny(st, x);
      bool want;
      if (op <= 2) {
        double rb = symd("rb" + s), re = symd("re" + s);
        double lo = rb < re ? rb : re, hi = rb < re ? re : rb;
        Range<double> r(rb, re);
        if (op == 0) { mr.addRange(r); want = inOld || in(lo, hi, x); }
        else if (op == 1) { mr.restrictTo(r); want = inOld && in(lo, hi, x); }
        else { mr.filterWithin(r); want = false; for (auto& q : st) want = want || (in(q.b, q.e, x) && lo <= q.b && q.e <= hi); }
      } else if (op == 3) { mr.clear(); want = false; SYM_ASSERT(mr.isEmpty() && mr.size() == 0, "clear leaves ranges"); }
      else {   // deep copy: mutate the copy, the source must not move, and the other way round
        MultiRange<double> cp(mr); MultiRange<double> as; as.addRange(Range<double>(0, 1)); as = mr;
        double cb = symd("cb" + s), ce = symd("ce" + s);
        cp.addRange(Range<double>(cb, ce)); as.restrictTo(Range<double>(cb, ce));
        vector<R> now = readBack(mr);
        SYM_ASSERT(now.size() == st.size(), "mutating a copy changed the source");
        for (size_t i = 0; i < now.size(); i++) SYM_ASSERT(now[i].b == st[i].b && now[i].e == st[i].e, "mutating a copy changed the source");
        MultiRange<double> cp2(mr); vector<R> before = readBack(cp2);
        mr.addRange(Range<double>(cb, ce));
        vector<R> after = readBack(cp2);
        SYM_ASSERT(before.size() == after.size(), "mutating the source changed a copy");
        for (size_t i = 0; i < after.size(); i++) SYM_ASSERT(before[i].b == after[i].b && before[i].e == after[i].e, "mutating the source changed a copy");
        double lo = cb < ce ? cb : ce, hi = cb < ce ? ce : cb;
        want = inOld || in(lo, hi, x);
      }
      vector<R> now = readBack(mr);
      checkCanonical(now, "after step");
      SYM_ASSERT(inAny(now, x) == want, "point membership differs from set semantics");
      SYM_ASSERT(mr.isEmpty() == (now.size() == 0), "isEmpty differs from size");
      vector<double> bd = mr.getBounds();
      SYM_ASSERT(bd.size() == 2 * now.size(), "getBounds size");
      st = now;
    }
  } else {
    // RangeSet: keeps every non-empty range individually
    int k = __sym_choose("k", 0, KMAX);
    RangeSet<double> rs; vector<R> st;
    for (int i = 0; i < k; i++) { double b = symd("b" + to_string(i)), e = symd("e" + to_string(i)); rs.addRange(Range<double>(b, e));
      double lo = b < e ? b : e, hi = b < e ? e : b; if (lo < hi) st.push_back(R{lo, hi}); }
    SYM_ASSERT(rs.size() == st.size(), "range set dropped or kept a wrong number of added ranges");
    for (size_t i = 0; i < st.size(); i++) SYM_ASSERT(rs.getRange(i).begin() == st[i].b && rs.getRange(i).end() == st[i].e, "range set altered an added range");
    int op = __sym_choose("op", 1, 3);
    double rb = symd("rb"), re = symd("re"); double lo = rb < re ? rb : re, hi = rb < re ? re : rb;
    vector<R> want;
    if (op == 1) { rs.restrictTo(Range<double>(rb, re)); for (auto& q : st) { double l = q.b > lo ? q.b : lo, h = q.e < hi ? q.e : hi; if (lo < hi && l < h) want.push_back(R{l, h}); } }
    else if (op == 2) { rs.filterWithin(Range<double>(rb, re)); for (auto& q : st) if (lo <= q.b && q.e <= hi) want.push_back(q); }
    else { RangeSet<double> cp(rs); cp.restrictTo(Range<double>(rb, re)); RangeSet<double> as; as = rs; as.clear(); want = st; }
    SYM_ASSERT(rs.size() == want.size(), "range set: wrong number of ranges kept");
    for (size_t i = 0; i < want.size(); i++) SYM_ASSERT(rs.getRange(i).begin() == want[i].b && rs.getRange(i).end() == want[i].e, "range set: a kept range differs from the individually restricted/filtered one");
    SYM_ASSERT(rs.isEmpty() == want.empty(), "range set isEmpty");
  }
}
