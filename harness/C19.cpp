// C19: simplex parametrisations always yield a probability vector and invert exactly (REAL mode).
#include <Bpp/Numeric/Prob/Simplex.h>
#include "symrt.h"
#include <string>
using namespace bpp;
using namespace std;
#ifndef DIMMIN
#define DIMMIN 1
#endif

static vector<double> anyTheta(int n, const string& tag) {
  vector<double> th(n);
  for (int i = 1; i < n; i++) { th[i] = symd(tag + to_string(i)); SYM_ASSUME(th[i] > 0 && th[i] < 1); }
  return th;
}
static ParameterList thetaList(const vector<double>& th, const string& ns) {
  ParameterList pl;
  for (size_t i = 1; i < th.size(); i++) pl.addParameter(Parameter(ns + "theta" + to_string(i), th[i]));
  return pl;
}
// positive probabilities summing to one: n-1 free symbolic entries, the last is the complement
static vector<double> anyProbs(int n) {
  vector<double> p(n); double sum = 0;
  for (int i = 0; i < n - 1; i++) { p[i] = symd("p" + to_string(i)); SYM_ASSUME(p[i] > 0); sum += p[i]; }
  if (n > 1) SYM_ASSUME(sum < 1);
  p[n - 1] = 1 - sum;
  return p;
}

extern "C" void verif_harness() {
  int which = __sym_choose("harness", HLO, HHI);
  int method = __sym_choose("method", 1, 3);
  int n = __sym_choose("dim", DIMMIN, DIMMAX);
  int allowNull = __sym_choose("allowNull", 0, 1);
  if (which == 0) {
    // parameters anywhere in the open unit cube -> probabilities >= 0 summing to one; and the map is injective
    // (the library's own inverse recovers the parameter vector: a left inverse exists)
    Simplex s(n, method, allowNull, "S.");
    SYM_ASSERT((int)s.dimension() == n && (int)s.getParameters().size() == n - 1, "dimension / number of parameters");
    vector<double> th = anyTheta(n, "th");
    s.matchParametersValues(thetaList(th, "S."));
    double sum = 0;
    for (int i = 0; i < n; i++) { SYM_ASSERT(s.prob(i) >= 0, "negative probability"); sum += s.prob(i); }
    SYM_ASSERT_EQ(sum, 1.0, "probabilities do not sum to one");
    SYM_ASSERT((int)s.getFrequencies().size() == n, "frequency vector has the wrong length");
    vector<double> p = s.getFrequencies();
    Simplex t(p, method, allowNull, "S.");
    for (int i = 1; i < n; i++) SYM_ASSERT_EQ(t.getParameterValue("theta" + to_string(i)), th[i], "not injective: parameters recovered from the probabilities differ");
    // copy independence
    Simplex c(s);
    vector<double> th2 = anyTheta(n, "u");
    c.matchParametersValues(thetaList(th2, "S."));
    for (int i = 0; i < n; i++) SYM_ASSERT(s.prob(i) == p[i], "updating a copy changed the source");
    Simplex d(n, method, allowNull, "S."); d = s;
    s.matchParametersValues(thetaList(th2, "S."));
    for (int i = 0; i < n; i++) SYM_ASSERT(d.prob(i) == p[i], "updating the source changed an assigned copy");
    for (int i = 0; i < n; i++) SYM_ASSERT_EQ(s.prob(i), c.prob(i), "same parameters give different probabilities in source and copy");
  } else if (which == 1) {
    // probabilities -> parameters -> probabilities (construction and setter), parameters inside their constraints
    vector<double> p = anyProbs(n);
    int via = __sym_choose("via", 0, 1);
    Simplex* s;
    if (via == 0) { s = new Simplex(p, method, allowNull, "S."); }
    else { s = new Simplex(n, method, allowNull, "S."); s->setFrequencies(p); }
    for (int i = 0; i < n; i++) SYM_ASSERT_EQ(s->prob(i), p[i], "getter differs from the probabilities given");
    s->fireParameterChanged(s->getParameters());      // force the forward map from the stored parameters
    for (int i = 0; i < n; i++) SYM_ASSERT_EQ(s->prob(i), p[i], "round trip through the parameters differs");
    for (int i = 1; i < n; i++) { double th = s->getParameterValue("theta" + to_string(i)); SYM_ASSERT(th > 0 && th < 1, "parameter outside (0,1)");
      SYM_ASSERT(s->parameter("theta" + to_string(i)).getConstraint()->isCorrect(th), "parameter violates its constraint"); }
    delete s;
  } else if (which == 2) {
    // ordered variant: from parameters
    OrderedSimplex s(n, method, allowNull, "S.");
    vector<double> th = anyTheta(n, "th");
    s.matchParametersValues(thetaList(th, "S."));
    const vector<double>& v = s.getFrequencies();
    SYM_ASSERT((int)v.size() == n, "ordered: wrong length");
    double sum = 0;
    for (int i = 0; i < n; i++) { sum += v[i]; SYM_ASSERT(v[i] >= 0, "ordered: negative value"); if (i > 0) SYM_ASSERT(v[i - 1] >= v[i], "ordered: values are not non-increasing"); }
    SYM_ASSERT_EQ(sum, 1.0, "ordered: values do not sum to one");
  } else {
    // ordered variant: round trip of strictly decreasing positive values summing to one
    vector<double> v(n); double sum = 0;
    // build from positive increments so that the assumption set stays linear
    vector<double> p = anyProbs(n);       // p[i] = (i+1)(v[i]-v[i+1]) > 0
    double x = 0; for (int i = n; i > 0; i--) { x += p[i - 1] / i; v[i - 1] = x; }
    (void)sum;
    int via = __sym_choose("via", 0, 1);
    OrderedSimplex* s;
    if (via == 0) s = new OrderedSimplex(v, method, allowNull, "S.");
    else { s = new OrderedSimplex(n, method, allowNull, "S."); s->setFrequencies(v); }
    for (int i = 0; i < n; i++) SYM_ASSERT_EQ(s->getFrequencies()[i], v[i], "ordered: getter differs from the values given");
    s->fireParameterChanged(s->getParameters());
    for (int i = 0; i < n; i++) SYM_ASSERT_EQ(s->getFrequencies()[i], v[i], "ordered: round trip differs");
    for (int i = 1; i < n; i++) { double th = s->getParameterValue("theta" + to_string(i)); SYM_ASSERT(th > 0 && th < 1, "ordered: parameter outside (0,1)"); }
    delete s;
  }
}
