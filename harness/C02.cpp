// C02: bulk parameter updates are atomic; names stay unique; copies are independent (REAL mode).
// Name sets, list orders, constraint kinds and the operation are forked; every value and every constraint bound is a solver variable.
#include <Bpp/Numeric/Parameter.h>
#include <Bpp/Numeric/ParameterList.h>
#include <Bpp/Numeric/AbstractParametrizable.h>
#include <Bpp/Numeric/Constraints.h>
#include "symrt.h"
#include <algorithm>
#include <map>
using namespace bpp;
using namespace std;
#ifndef NPOOL
#define NPOOL 3
#endif
#ifndef CKINDS
#define CKINDS 1
#endif
static const char* POOL[] = {"a", "b", "c", "d", "e"};
struct Ent { string name; double v; int ck; double l, u; };   // ck: 0 none, 1 closed [l,u], 2 open ]l,u[
static bool accepts(const Ent& e, double x) { if (e.ck == 0) return true; if (e.ck == 1) return x >= e.l && x <= e.u; return x > e.l && x < e.u; }
// an arbitrary list over the pool: the subset, the order (natural / reversed / rotated) and each constraint kind are forked
#ifndef TMAX
#define TMAX NPOOL
#endif
static vector<Ent> anyEntries(const string& tag, bool constrained, bool anyOrder = true, int maxSize = NPOOL) {
  int mask = __sym_choose((tag + ".names").c_str(), 0, (1 << NPOOL) - 1);
  if (__builtin_popcount(mask) > maxSize) __sym_prune();
  vector<Ent> es;
  for (int i = 0; i < NPOOL; i++) if (mask & (1 << i)) { Ent e; e.name = POOL[i]; e.v = symd(tag + "." + e.name); e.ck = 0; e.l = e.u = 0;
#ifdef POSVALS
    SYM_ASSUME(e.v > 0);    // quick tier: skips the 3-way sign split the Parameter constructor makes for every value (it starts from 0); construction is C01's subject
#endif
    if (constrained) { e.ck = __sym_choose((tag + "." + e.name + ".constraint").c_str(), 0, CKINDS);
      if (e.ck) { e.l = symd(tag + "." + e.name + ".lo"); e.u = symd(tag + "." + e.name + ".hi"); SYM_ASSUME(accepts(e, e.v)); } }
    es.push_back(e); }
  if (es.size() > 1 && anyOrder) { int ord = __sym_choose((tag + ".order").c_str(), 0, es.size() > 2 ? 2 : 1); if (ord == 1) reverse(es.begin(), es.end()); else if (ord == 2) rotate(es.begin(), es.begin() + 1, es.end()); }
  return es;
}
static Parameter mkParam(const Ent& e) {
  if (e.ck == 0) return Parameter(e.name, e.v);
  return Parameter(e.name, e.v, make_shared<IntervalConstraint>(e.l, e.u, e.ck == 1, e.ck == 1));
}
static ParameterList mkList(const vector<Ent>& es) { ParameterList pl; for (auto& e : es) pl.addParameter(mkParam(e)); return pl; }
static const Ent* find(const vector<Ent>& es, const string& n) { for (auto& e : es) if (e.name == n) return &e; return nullptr; }
static void sameNames(const ParameterList& pl, const vector<string>& want, const char* msg) {
  SYM_ASSERT(pl.size() == want.size(), msg);
  for (size_t i = 0; i < want.size(); i++) SYM_ASSERT(pl[i].getName() == want[i], msg);
  vector<string> n = pl.getParameterNames(); SYM_ASSERT(n == want, msg);
  for (size_t i = 0; i < n.size(); i++) for (size_t j = i + 1; j < n.size(); j++) SYM_ASSERT(n[i] != n[j], "a name occurs twice in a list");
}
static vector<string> namesOf(const vector<Ent>& es) { vector<string> v; for (auto& e : es) v.push_back(e.name); return v; }
static void unchanged(const ParameterList& pl, const vector<Ent>& es, const char* msg) {
  sameNames(pl, namesOf(es), msg);
  for (size_t i = 0; i < es.size(); i++) { SYM_ASSERT(pl[i].getValue() == es[i].v, msg); SYM_ASSERT(pl[i].hasConstraint() == (es[i].ck != 0), msg); }
}
class Owner : public AbstractParametrizable {
public:
  int fired = 0; vector<string> lastFired;
  Owner(const ParameterList& pl) : AbstractParametrizable("") { addParameters_(pl); }
  Owner* clone() const override { return new Owner(*this); }
  void fireParameterChanged(const ParameterList& p) override { fired++; lastFired = p.getParameterNames(); }
};

extern "C" void verif_harness() {
  int which = __sym_choose("harness", HLO, HHI);
  if (which == 0) {
    // ---- bulk value updates: all-or-nothing, untouched names, changed flag and positions ----
    vector<Ent> T = anyEntries("t", true, false, TMAX), S = anyEntries("s", false);
    int op = __sym_choose("op", 0, 6);   // 0 set 1 setAll 2 match(+positions) 3 test 4 owner.set 5 owner.setAll 6 owner.match
    ParameterList tl = mkList(T), sl = mkList(S);
    Owner ow(tl);
    bool isAll = (op == 1 || op == 5);
    bool missing = false; if (isAll) for (auto& e : T) if (!find(S, e.name)) missing = true;
    bool rejected = false, differs = false; vector<size_t> wantPos;
    for (size_t k = 0; k < S.size(); k++) { const Ent* t = find(T, S[k].name); if (!t) continue; if (!accepts(*t, S[k].v)) rejected = true; }
    bool needFlag = (op == 2 || op == 3 || op == 6);
    if (needFlag) for (size_t k = 0; k < S.size(); k++) { const Ent* t = find(T, S[k].name); if (t && !(t->v == S[k].v)) { differs = true; wantPos.push_back(k); } }
    bool raisedConstraint = false, raisedNotFound = false, flag = false; vector<size_t> pos;
    try {
      switch (op) {
        case 0: tl.setParametersValues(sl); break;
        case 1: tl.setAllParametersValues(sl); break;
        case 2: flag = tl.matchParametersValues(sl, &pos); break;
        case 3: flag = tl.testParametersValues(sl); break;
        case 4: ow.setParametersValues(sl); break;
        case 5: ow.setAllParametersValues(sl); break;
        default: flag = ow.matchParametersValues(sl); break;
      }
    } catch (ConstraintException&) { raisedConstraint = true; } catch (ParameterNotFoundException&) { raisedNotFound = true; }
    const ParameterList& res = op >= 4 ? ow.getParameters() : tl;
    unchanged(sl, S, "the source list was modified by a bulk update");
    if (isAll && missing) { SYM_ASSERT(raisedNotFound || raisedConstraint, "set-all with a target name missing from the source did not raise"); unchanged(res, T, "a refused set-all changed the target"); return; }
    SYM_ASSERT(!raisedNotFound, "bulk update raised 'not found' although every required name is present");
    if (rejected) { SYM_ASSERT(raisedConstraint, "a value rejected by its target's constraint was not refused"); unchanged(res, T, "a refused bulk update changed some value (not atomic)"); if (op >= 4) SYM_ASSERT(ow.fired == 0, "change notification fired for a refused update"); return; }
    SYM_ASSERT(!raisedConstraint, "bulk update raised although every matching value is accepted");
    sameNames(res, namesOf(T), "bulk value update changed the set or order of names");
    for (size_t i = 0; i < T.size(); i++) { const Ent* s = find(S, T[i].name);
      if (op == 3) SYM_ASSERT(res[i].getValue() == T[i].v, "testParametersValues changed a value");
      else if (s) SYM_ASSERT(res[i].getValue() == s->v, "a matching value was not applied");
      else SYM_ASSERT(res[i].getValue() == T[i].v, "a parameter not named in the source was touched");
      SYM_ASSERT(res[i].hasConstraint() == (T[i].ck != 0), "value update changed a constraint"); }
    if (op == 2 || op == 3 || op == 6) SYM_ASSERT(flag == differs, "'something changed' flag differs from 'some matching value differed'");
    if (op == 2) { SYM_ASSERT(pos == wantPos, "changed positions are not exactly the source entries whose value differed"); }
    if (op == 6) { SYM_ASSERT(ow.fired == (differs ? 1 : 0), "owner notification count"); if (differs) { vector<string> w; for (auto k : wantPos) w.push_back(S[k].name); SYM_ASSERT(ow.lastFired == w, "owner was notified with a list that is not exactly the changed entries"); } }
    if (op == 4 || op == 5) SYM_ASSERT(ow.fired == 1, "owner not notified exactly once after an applied bulk update");
  } else if (which == 1) {
    // ---- add / include / share: unique names, collisions refused or turned into value updates ----
    vector<Ent> T = anyEntries("t", true, false, TMAX), S = anyEntries("s", false);
    int op = __sym_choose("op", 0, 4);   // 0 addParameters 1 includeParameters 2 shareParameters 3 addParameter(single) 4 shareParameter(single)
    ParameterList tl = mkList(T), sl = mkList(S);
    bool collide = false, rejected = false; for (auto& s : S) { const Ent* t = find(T, s.name); if (t) { collide = true; if (!accepts(*t, s.v)) rejected = true; } }
    if (op >= 3 && S.empty()) return;
    bool raisedP = false, raisedC = false;
    try { switch (op) { case 0: tl.addParameters(sl); break; case 1: tl.includeParameters(sl); break; case 2: tl.shareParameters(sl); break; case 3: tl.addParameter(sl[0]); break; default: tl.shareParameter(sl.getParameter(0)); } }
    catch (ConstraintException&) { raisedC = true; } catch (ParameterException&) { raisedP = true; }
    vector<string> n = tl.getParameterNames(); for (size_t i = 0; i < n.size(); i++) for (size_t j = i + 1; j < n.size(); j++) SYM_ASSERT(n[i] != n[j], "a name occurs twice in a list after add/include/share");
    vector<Ent> SS = S; if (op >= 3) SS.resize(1);
    bool coll1 = false, rej1 = false; for (auto& s : SS) { const Ent* t = find(T, s.name); if (t) { coll1 = true; if (!accepts(*t, s.v)) rej1 = true; } }
    if (op == 0 || op == 3) {
      if (coll1) { SYM_ASSERT(raisedP, "adding a parameter whose name is already present was not refused"); for (auto& t : T) SYM_ASSERT(tl.getParameterValue(t.name) == t.v, "a refused add changed an existing value"); if (op == 3) unchanged(tl, T, "a refused add changed the list"); return; }
      SYM_ASSERT(!raisedP && !raisedC, "adding new names raised");
      vector<string> w = namesOf(T); for (auto& s : SS) w.push_back(s.name); sameNames(tl, w, "add: resulting names differ from target followed by source");
      for (auto& t : T) SYM_ASSERT(tl.getParameterValue(t.name) == t.v, "add changed an existing value");
      for (auto& s : SS) SYM_ASSERT(tl.getParameterValue(s.name) == s.v, "added parameter has a different value");
      // added parameters are copies: changing the source afterwards does not show in the target
      double z = symd("z"); for (auto& e : SS) SYM_ASSUME(z > e.v);
      for (size_t k = 0; k < SS.size(); k++) { sl[k].setValue(z); SYM_ASSERT(tl.getParameterValue(SS[k].name) == SS[k].v, "an added (copied) parameter follows its source"); }
      return;
    }
    // include / share
    if (rej1) { SYM_ASSERT(raisedC, "include/share of a value rejected by the existing parameter's constraint did not raise"); return; }
    SYM_ASSERT(!raisedP && !raisedC, "include/share raised although all colliding values are accepted");
    vector<string> w = namesOf(T); for (auto& s : SS) if (!find(T, s.name)) w.push_back(s.name); sameNames(tl, w, "include/share: resulting names differ from target plus new source names");
    for (auto& t : T) { const Ent* s = find(SS, t.name); SYM_ASSERT(tl.getParameterValue(t.name) == (s ? s->v : t.v), "include/share: colliding name was not turned into a value update (or a foreign one was touched)"); SYM_ASSERT(tl.parameter(t.name).hasConstraint() == (t.ck != 0), "include/share replaced an existing parameter object"); }
    double z = symd("z"); for (auto& e : SS) SYM_ASSUME(z > e.v);
    for (size_t k = 0; k < SS.size(); k++) { if (find(T, SS[k].name)) continue; SYM_ASSERT(tl.getParameterValue(SS[k].name) == SS[k].v, "included parameter has a different value");
      sl[k].setValue(z); bool follows = (tl.getParameterValue(SS[k].name) == z) && !(z == SS[k].v);
      if (op == 1) SYM_ASSERT(z == SS[k].v || tl.getParameterValue(SS[k].name) == SS[k].v, "an included (copied) parameter follows its source");
      else SYM_ASSERT(z == SS[k].v || follows, "a shared parameter does not observe the very same object"); }
  } else if (which == 2) {
    // ---- lookups, deletions, sub-lists ----
    vector<Ent> T = anyEntries("t", true);
    ParameterList tl = mkList(T);
    int op = __sym_choose("op", 0, 7);
    int pick = __sym_choose("pick", 0, (1 << NPOOL) - 1);       // a set of pool names (present or absent), used in a forked order
    int rev = __sym_choose("pickReversed", 0, 1);
    vector<string> names; for (int i = 0; i < NPOOL; i++) if (pick & (1 << i)) names.push_back(POOL[i]); if (rev) reverse(names.begin(), names.end());
    bool allPresent = true; for (auto& n : names) if (!find(T, n)) allPresent = false;
    vector<Ent> rest; for (auto& t : T) if (find(names.begin(), names.end(), t.name) == names.end()) rest.push_back(t);
    vector<size_t> idx; for (auto& n : names) for (size_t i = 0; i < T.size(); i++) if (T[i].name == n) idx.push_back(i);    // unsorted, repeat-free positions
    if (op == 0) {        // lookups
      for (int i = 0; i < NPOOL; i++) { string n = POOL[i]; const Ent* t = find(T, n); SYM_ASSERT(tl.hasParameter(n) == (t != nullptr), "hasParameter differs from membership");
        bool th = false; try { double v = tl.getParameterValue(n); SYM_ASSERT(t && v == t->v, "getParameterValue returns another entry's value"); size_t w = tl.whichParameterHasName(n); SYM_ASSERT(T[w].name == n, "whichParameterHasName points at another entry"); SYM_ASSERT(tl.parameter(n).getName() == n && tl.getParameter(n)->getName() == n, "lookup by name returns another entry"); }
        catch (ParameterNotFoundException&) { th = true; } SYM_ASSERT(th == (t == nullptr), "lookup of an absent name did not raise (or a present one raised)"); }
    } else if (op == 1) { // delete by names, mustExist
      bool th = false; try { tl.deleteParameters(names, true); } catch (ParameterNotFoundException&) { th = true; }
      SYM_ASSERT(th == !allPresent, "deleteParameters(mustExist) raise condition"); if (!th) unchanged(tl, rest, "deletion by names removed other entries or left some");
    } else if (op == 2) { // delete by names, tolerant
      tl.deleteParameters(names, false); unchanged(tl, rest, "tolerant deletion by names removed other entries or left some");
    } else if (op == 3) { // delete by index set (unsorted, repeat-free)
      tl.deleteParameters(idx); vector<Ent> r2; for (size_t i = 0; i < T.size(); i++) if (find(idx.begin(), idx.end(), i) == idx.end()) r2.push_back(T[i]);
      unchanged(tl, r2, "deletion by an unsorted index set removed the wrong entries");
      bool th = false; vector<size_t> bad{tl.size()}; try { tl.deleteParameters(bad); } catch (IndexOutOfBoundsException&) { th = true; } SYM_ASSERT(th, "deletion of an out-of-range index did not raise");
    } else if (op == 4) { // single deletions
      if (names.empty()) return; string n = names[0]; bool th = false; try { tl.deleteParameter(n); } catch (ParameterNotFoundException&) { th = true; }
      vector<Ent> r1; for (auto& t : T) if (t.name != n) r1.push_back(t); SYM_ASSERT(th == (find(T, n) == nullptr), "deleteParameter(name) raise condition"); unchanged(tl, r1, "deleteParameter(name) removed the wrong entry");
      if (tl.size()) { size_t k = tl.size() - 1; string last = tl[k].getName(); tl.deleteParameter(k); SYM_ASSERT(!tl.hasParameter(last) && tl.size() == k, "deleteParameter(index) removed the wrong entry"); }
      bool th2 = false; try { tl.deleteParameter(tl.size()); } catch (IndexOutOfBoundsException&) { th2 = true; } SYM_ASSERT(th2, "deleteParameter(out of range) did not raise");
    } else if (op == 5 || op == 6) { // sub-lists by names: copy (5) or share (6)
      bool th = false; ParameterList sub; try { sub = (op == 5) ? tl.createSubList(names) : tl.shareSubList(names); } catch (ParameterNotFoundException&) { th = true; }
      SYM_ASSERT(th == !allPresent, "sub-list by names raise condition"); if (th) { unchanged(tl, T, "a refused sub-list extraction changed the source"); return; }
      ParameterList sub2 = (op == 5) ? tl.createSubList(names) : tl.shareSubList(names);    // (assignment above deep-copies; use a directly constructed one for sharing semantics)
      sameNames(sub2, names, "sub-list does not address exactly the named entries in the order given");
      for (auto& n : names) SYM_ASSERT(sub2.getParameterValue(n) == find(T, n)->v, "sub-list entry has another entry's value");
      double z = symd("z"); for (auto& e : T) SYM_ASSUME(z > e.v);
      for (auto& n : names) { SYM_ASSUME(accepts(*find(T, n), z)); sub2.setParameterValue(n, z);
        if (op == 5) SYM_ASSERT(tl.getParameterValue(n) == find(T, n)->v, "changing an extracted (copied) sub-list changed the source");
        else SYM_ASSERT(tl.getParameterValue(n) == z, "a shared sub-list does not observe the very same parameter objects"); }
      for (auto& t : rest) SYM_ASSERT(tl.getParameterValue(t.name) == t.v, "sub-list update touched an entry that was not named");
    } else {              // sub-lists by positions (copy / share / single), common parameters
      ParameterList c = tl.createSubList(idx), s = tl.shareSubList(idx);
      vector<string> w; for (auto i : idx) w.push_back(T[i].name);
      sameNames(c, w, "createSubList(positions) does not address exactly the positions given"); sameNames(s, w, "shareSubList(positions) does not address exactly the positions given");
      double z = symd("z"); for (auto& e : T) SYM_ASSUME(z > e.v);
      for (auto i : idx) { SYM_ASSUME(accepts(T[i], z)); c[c.whichParameterHasName(T[i].name)].setValue(z); SYM_ASSERT(tl[i].getValue() == T[i].v, "changing a copied sub-list (by positions) changed the source"); }
      for (auto i : idx) { s.setParameterValue(T[i].name, z); SYM_ASSERT(tl[i].getValue() == z, "a shared sub-list (by positions) does not observe the same objects"); }
      if (!T.empty()) { ParameterList one = tl.createSubList((size_t)0); SYM_ASSERT(one.size() == 1 && one[0].getName() == T[0].name, "createSubList(single position)"); ParameterList byName = tl.createSubList(T[0].name); SYM_ASSERT(byName.size() == 1 && byName[0].getName() == T[0].name, "createSubList(single name)"); }
      ParameterList other; for (auto& n : names) other.addParameter(Parameter(n, 1.0));
      ParameterList common = tl.getCommonParametersWith(other); vector<string> wc; for (auto& n : names) if (find(T, n)) wc.push_back(n); sameNames(common, wc, "common parameters are not exactly the names present in both");
    }
  } else {
    // ---- copies are independent (copy construction, assignment, clone of an owner) ----
    vector<Ent> T = anyEntries("t", true);
    ParameterList tl = mkList(T);
    int via = __sym_choose("via", 0, 3);
    double z = symd("z"); for (auto& e : T) SYM_ASSUME(z > e.v);
    if (via <= 1) {
      ParameterList cp(tl); ParameterList as; as.addParameter(Parameter("zz", 3.0)); as = tl;
      ParameterList& c = via == 0 ? cp : as;
      unchanged(c, T, "a copy differs from its source");
      for (size_t i = 0; i < T.size(); i++) { SYM_ASSUME(accepts(T[i], z)); c[i].setValue(z); SYM_ASSERT(tl[i].getValue() == T[i].v, "changing a copied list changed its source"); }
      if (!T.empty()) { c.deleteParameter((size_t)0); SYM_ASSERT(tl.size() == T.size(), "deleting from a copy changed the source"); }
    } else if (via == 2) {
      ParameterList cp(tl);
      for (size_t i = 0; i < T.size(); i++) { SYM_ASSUME(accepts(T[i], z)); tl[i].setValue(z); SYM_ASSERT(cp[i].getValue() == T[i].v, "changing the source changed a copied list"); }
      tl.reset(); unchanged(cp, T, "resetting the source changed a copy");
    } else {
      Owner ow(tl); unique_ptr<Owner> cl(ow.clone());
      for (size_t i = 0; i < T.size(); i++) { SYM_ASSUME(accepts(T[i], z)); cl->setParameterValue(T[i].name, z); SYM_ASSERT(ow.getParameterValue(T[i].name) == T[i].v, "changing a cloned owner changed the original"); SYM_ASSERT(tl[i].getValue() == T[i].v, "changing a cloned owner changed the list it was built from"); }
    }
  }
}
