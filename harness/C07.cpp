// C07: vector reductions match their definitions and are overflow-safe in log space.
// Lengths are forked, entries are solver variables (REAL mode; the log-domain special values are run in FP mode).
#include <Bpp/Numeric/VectorTools.h>
#include <Bpp/Numeric/NumTools.h>
#include <Bpp/Numeric/Stat/StatTools.h>
#include "symrt.h"
#include <limits>
using namespace bpp;
using namespace std;
#ifndef LMAX
#define LMAX 3
#endif
typedef vector<double> V;
static V anyV(const string& tag, int n) { V v(n); for (int i = 0; i < n; i++) { v[i] = symd(tag + to_string(i));
#ifdef FPMODE
  SYM_ASSUME(v[i] == v[i]);
#endif
  } return v; }
static int len(const string& n, int lo = 0) { return __sym_choose(n.c_str(), lo, LMAX); }
#define EXPECT(EXC, stmt, msg) { bool thrown_ = false; try { stmt; } catch (EXC&) { thrown_ = true; } SYM_ASSERT(thrown_, msg); }
static bool has(const V& v, double x) { for (double y : v) if (y == x) return true; return false; }

extern "C" void verif_harness() {
  int which = __sym_choose("harness", HLO, HHI);
  switch (which) {
  case 0: {  // element-wise arithmetic
    int n1 = len("n1"), n2 = len("n2"); V a = anyV("a", n1), b = anyV("b", n2); double c = symd("c");
    int op = __sym_choose("op", 0, 3);
    if (op == 3) { for (double y : b) SYM_ASSUME(y > 0); SYM_ASSUME(c > 0); }     // division: non-zero divisors
    if (n1 != n2) {
      if (op == 0) { EXPECT(DimensionException, a + b, "sum of vectors of unequal length did not raise"); } else if (op == 1) { EXPECT(DimensionException, a - b, "difference of unequal length did not raise"); }
      else if (op == 2) { EXPECT(DimensionException, a * b, "product of unequal length did not raise"); } else { EXPECT(DimensionException, a / b, "quotient of unequal length did not raise"); }
      __sym_label(n1 > n2 ? "compound-assignment-target-longer" : "compound-assignment-target-shorter");
      if (op == 0) { EXPECT(DimensionException, a += b, "compound assignment of unequal length did not raise"); } else if (op == 1) { EXPECT(DimensionException, a -= b, "compound assignment of unequal length did not raise"); }
      else if (op == 2) { EXPECT(DimensionException, a *= b, "compound assignment of unequal length did not raise"); } else { EXPECT(DimensionException, a /= b, "compound assignment of unequal length did not raise"); }
      break; }
    V r, rc, cr, a2 = a, a3 = a;
    if (op == 0) { r = a + b; rc = a + c; cr = c + a; a2 += b; a3 += c; } else if (op == 1) { r = a - b; rc = a - c; cr = c - a; a2 -= b; a3 -= c; }
    else if (op == 2) { r = a * b; rc = a * c; cr = c * a; a2 *= b; a3 *= c; } else { r = a / b; rc = a / c; cr = c / b; a2 /= b; a3 /= c; }
    if (n1 > 0) { V al = a; double a0 = a[0];       // the scalar may be an element of the vector itself (v -= v[0])
      if (op == 0) al += al[0]; else if (op == 1) al -= al[0]; else if (op == 2) al *= al[0]; else if (!(a0 == 0)) al /= al[0];
      if (op != 3 || !(a0 == 0)) for (int i = 0; i < n1; i++) SYM_ASSERT_EQ(al[i], op == 0 ? a[i] + a0 : op == 1 ? a[i] - a0 : op == 2 ? a[i] * a0 : a[i] / a0, "vector (op)= one of its own elements: the element's value at the time of the call is not used throughout"); }
    SYM_ASSERT((int)r.size() == n1 && (int)rc.size() == n1 && (int)cr.size() == n1 && (int)a2.size() == n1 && (int)a3.size() == n1, "element-wise result has the wrong length");
    for (int i = 0; i < n1; i++) { double w = op == 0 ? a[i] + b[i] : op == 1 ? a[i] - b[i] : op == 2 ? a[i] * b[i] : a[i] / b[i];
      double wc = op == 0 ? a[i] + c : op == 1 ? a[i] - c : op == 2 ? a[i] * c : a[i] / c, wr = op == 0 ? c + a[i] : op == 1 ? c - a[i] : op == 2 ? c * a[i] : c / b[i];
      SYM_ASSERT_EQ(r[i], w, "vector (op) vector: entry differs"); SYM_ASSERT_EQ(a2[i], w, "vector (op)= vector: entry differs"); SYM_ASSERT_EQ(rc[i], wc, "vector (op) scalar: entry differs");
      SYM_ASSERT_EQ(cr[i], wr, "scalar (op) vector: entry differs"); SYM_ASSERT_EQ(a3[i], wc, "vector (op)= scalar: entry differs"); }
    break; }
  case 1: {  // sums, products, cumulative forms, dot products, means
    int n = len("n"), n2 = len("n2"); V a = anyV("a", n), b = anyV("b", n2);
    double s = 0, p = 1; V cs(n), cp(n); for (int i = 0; i < n; i++) { s += a[i]; p *= a[i]; cs[i] = s; cp[i] = p; }
    SYM_ASSERT_EQ(VectorTools::sum(a), s, "sum differs"); SYM_ASSERT_EQ(VectorTools::prod(a), p, "prod differs");
    V gcs = VectorTools::cumSum(a), gcp = VectorTools::cumProd(a); SYM_ASSERT((int)gcs.size() == n && (int)gcp.size() == n, "cumulative form has the wrong length");
    for (int i = 0; i < n; i++) { SYM_ASSERT_EQ(gcs[i], cs[i], "cumSum differs"); SYM_ASSERT_EQ(gcp[i], cp[i], "cumProd differs"); }
    if (n != n2) { EXPECT(DimensionException, VectorTools::sumProd(a, b), "sumProd of unequal lengths did not raise"); EXPECT(DimensionException, (VectorTools::scalar<double, double>(a, b)), "scalar product of unequal lengths did not raise"); break; }
    double d = 0; for (int i = 0; i < n; i++) d += a[i] * b[i];
    SYM_ASSERT_EQ(VectorTools::sumProd(a, b), d, "sumProd differs from sum a_i b_i"); SYM_ASSERT_EQ((VectorTools::scalar<double, double>(a, b)), d, "scalar product differs");
    if (n >= 1) { SYM_ASSERT_EQ((VectorTools::mean<double, double>(a)), s / n, "mean differs");
      V ce = VectorTools::center<double, double>(a); for (int i = 0; i < n; i++) SYM_ASSERT_EQ(ce[i], a[i] - s / n, "center differs");
      double sw = 0; for (double w : b) { SYM_ASSUME(w > 0); sw += w; }
      SYM_ASSERT_EQ((VectorTools::mean<double, double>(a, b, true)), d / sw, "weighted mean (normalised weights) differs"); SYM_ASSERT_EQ((VectorTools::mean<double, double>(a, b, false)), d, "weighted mean (raw weights) differs"); }
    V k = VectorTools::kroneckerMult(a, b); SYM_ASSERT((int)k.size() == n * n2, "vector Kronecker product has the wrong length"); for (int i = 0; i < n; i++) for (int j = 0; j < n2; j++) SYM_ASSERT_EQ(k[i * n2 + j], a[i] * b[j], "vector Kronecker product differs");
    break; }
  case 2: {  // extrema, positions, ordering, median, unique
    int n = len("n"); V a = anyV("a", n);
    if (n == 0) { EXPECT(EmptyVectorException<double>, VectorTools::min(a), "min of an empty vector did not raise"); EXPECT(EmptyVectorException<double>, VectorTools::max(a), "max of an empty vector did not raise");
      EXPECT(EmptyVectorException<double>, VectorTools::whichMax(a), "whichMax of an empty vector did not raise"); EXPECT(EmptyVectorException<double>, VectorTools::whichMin(a), "whichMin of an empty vector did not raise");
      EXPECT(EmptyVectorException<double>, VectorTools::whichMaxAll(a), "whichMaxAll(empty) did not raise"); EXPECT(EmptyVectorException<double>, VectorTools::whichMinAll(a), "whichMinAll(empty) did not raise");
      EXPECT(EmptyVectorException<double>, VectorTools::range(a), "range(empty) did not raise"); EXPECT(EmptyVectorException<double>, VectorTools::order(a), "order(empty) did not raise");
      SYM_ASSERT(VectorTools::unique(a).empty() && VectorTools::isUnique(a), "unique/isUnique of an empty vector"); V e; SYM_ASSERT(VectorTools::median(e) == 0.0, "median of an empty vector"); break; }
    double mn = VectorTools::min(a), mx = VectorTools::max(a); size_t imx = VectorTools::whichMax(a), imn = VectorTools::whichMin(a);
    SYM_ASSERT(imx < (size_t)n && imn < (size_t)n, "extremum position out of range");
    for (int i = 0; i < n; i++) { SYM_ASSERT(a[i] <= mx && a[i] >= mn, "min/max is not a bound"); if (i < (int)imx) SYM_ASSERT(a[i] < mx, "whichMax is not the first position of the maximum"); if (i < (int)imn) SYM_ASSERT(a[i] > mn, "whichMin is not the first position of the minimum"); }
    SYM_ASSERT(a[imx] == mx && a[imn] == mn, "whichMax/whichMin do not point at the extremum");
    vector<size_t> allx = VectorTools::whichMaxAll(a), alln = VectorTools::whichMinAll(a); size_t kx = 0, kn = 0;
    for (int i = 0; i < n; i++) { if (a[i] == mx) { SYM_ASSERT(kx < allx.size() && allx[kx] == (size_t)i, "whichMaxAll differs from the positions of the maximum"); kx++; } if (a[i] == mn) { SYM_ASSERT(kn < alln.size() && alln[kn] == (size_t)i, "whichMinAll differs"); kn++; } }
    SYM_ASSERT(kx == allx.size() && kn == alln.size(), "whichMaxAll/whichMinAll list extra positions");
    V rg = VectorTools::range(a); SYM_ASSERT(rg.size() == 2 && rg[0] == mn && rg[1] == mx, "range differs from (min,max)");
    vector<size_t> o = VectorTools::order(a); SYM_ASSERT((int)o.size() == n, "order: wrong length"); vector<int> seen(n, 0); for (int i = 0; i < n; i++) { SYM_ASSERT(o[i] < (size_t)n, "order: index out of range"); seen[o[i]]++; if (i) SYM_ASSERT(a[o[i - 1]] <= a[o[i]], "order is not ascending"); }
    for (int i = 0; i < n; i++) SYM_ASSERT(seen[i] == 1, "order is not a permutation");
    V ab = VectorTools::abs(a); for (int i = 0; i < n; i++) SYM_ASSERT(ab[i] == (a[i] < 0 ? -a[i] : a[i]), "abs differs");
    V srt = a; double med = VectorTools::median(srt);     // median sorts its argument
    int below = 0, above = 0; for (int i = 0; i < n; i++) { if (a[i] < med) below++; if (a[i] > med) above++; }
    SYM_ASSERT(2 * below <= n && 2 * above <= n, "median does not split the sample in halves");
    if (n % 2 == 1) SYM_ASSERT(has(a, med), "median of an odd-length sample is not a sample value");
    else { V so = a; for (int i = 1; i < n; i++) for (int j = i; j > 0 && so[j] < so[j - 1]; j--) { double t = so[j]; so[j] = so[j - 1]; so[j - 1] = t; }    // reference order (insertion sort: ties handled)
      SYM_ASSERT_EQ(med, (so[n / 2 - 1] + so[n / 2]) / 2, "median of an even-length sample is not the mean of the two middle values"); }
    V u = VectorTools::unique(a); for (size_t i = 0; i < u.size(); i++) { SYM_ASSERT(has(a, u[i]), "unique invents a value"); if (i) SYM_ASSERT(u[i - 1] < u[i], "unique is not strictly ascending"); } for (int i = 0; i < n; i++) SYM_ASSERT(has(u, a[i]), "unique drops a value");
    SYM_ASSERT(VectorTools::isUnique(a) == ((int)u.size() == n), "isUnique differs from 'no repeated element'");
    break; }
  case 3: {  // covariance, variance, correlation
    int n = len("n", 2); V a = anyV("a", n), b = anyV("b", n);
    double ma = 0, mb = 0; for (int i = 0; i < n; i++) { ma += a[i]; mb += b[i]; } ma = ma / n; mb = mb / n;
    double sab = 0, saa = 0, sbb = 0; for (int i = 0; i < n; i++) { sab += (a[i] - ma) * (b[i] - mb); saa += (a[i] - ma) * (a[i] - ma); sbb += (b[i] - mb) * (b[i] - mb); }
    SYM_ASSERT_EQ((VectorTools::cov<double, double>(a, b, true)), sab / (n - 1), "unbiased covariance differs"); SYM_ASSERT_EQ((VectorTools::cov<double, double>(a, b, false)), sab / n, "biased covariance differs");
    SYM_ASSERT_EQ((VectorTools::var<double, double>(a, true)), saa / (n - 1), "unbiased variance differs"); SYM_ASSERT_EQ((VectorTools::var<double, double>(a, false)), saa / n, "biased variance differs");
    int alsoCor = __sym_choose("cor", 0, 1);
    if (alsoCor) { SYM_ASSUME(saa > 0 && sbb > 0); double sd = VectorTools::sd<double, double>(a, true); SYM_ASSERT(sd >= 0, "negative standard deviation"); SYM_ASSERT_EQ(sd * sd, saa / (n - 1), "sd^2 differs from the variance");
      double r = VectorTools::cor<double, double>(a, b); SYM_ASSERT_EQ(r * r * saa * sbb, sab * sab, "correlation differs from cov/(sd.sd)"); SYM_ASSERT((r >= 0) == (sab >= 0), "correlation has the wrong sign"); }
    V a1 = anyV("z", 1), b2 = anyV("y", 2); EXPECT(DimensionException, (VectorTools::cov<double, double>(a1, b2, false)), "covariance of unequal lengths did not raise");
    break; }
  case 4: {  // set-like helpers
    int n1 = len("n1"), n2 = len("n2"); V a = anyV("a", n1), b = anyV("b", n2); double x = symd("x");
    SYM_ASSERT(VectorTools::contains(a, x) == has(a, x), "contains differs from membership");
    V u = VectorTools::vectorUnion(a, b); for (double y : u) SYM_ASSERT(has(a, y) || has(b, y), "union invents an element"); for (double y : a) SYM_ASSERT(has(u, y), "union drops an element of the first vector"); for (double y : b) SYM_ASSERT(has(u, y), "union drops an element of the second vector");
    V in = VectorTools::vectorIntersection(a, b); for (double y : in) SYM_ASSERT(has(a, y) && has(b, y), "intersection contains a non-common element"); for (double y : a) if (has(b, y)) SYM_ASSERT(has(in, y), "intersection drops a common element");
    { V a2 = a, b2 = b; bool all = true; for (double y : b) if (!has(a, y)) all = false; SYM_ASSERT(VectorTools::containsAll(a2, b2) == all, "containsAll differs from 'every element of the second is in the first'"); }
    { V a2 = a, b2 = b, d; VectorTools::diff(a2, b2, d); for (double y : d) SYM_ASSERT(has(a, y) && !has(b, y), "difference contains an element of the second vector (or a foreign one)"); for (double y : a) if (!has(b, y)) SYM_ASSERT(has(d, y), "difference drops an element");
      for (size_t i = 1; i < d.size(); i++) SYM_ASSERT(d[i - 1] < d[i], "difference is not sorted / repeats an element"); }
    { V sa = a, sb = b; bool same = n1 == n2; if (same) { sort(sa.begin(), sa.end()); sort(sb.begin(), sb.end()); for (int i = 0; i < n1; i++) if (!(sa[i] == sb[i])) same = false; }
      SYM_ASSERT(VectorTools::haveSameElements((const V&)a, (const V&)b) == same, "haveSameElements differs from multiset equality"); }
    { V e = a; VectorTools::extend(e, b); SYM_ASSERT(e.size() >= a.size(), "extend shrank its target"); for (int i = 0; i < n1; i++) SYM_ASSERT(e[i] == a[i], "extend changed existing elements"); for (double y : b) SYM_ASSERT(has(e, y), "extend missed an element"); for (size_t i = n1; i < e.size(); i++) { SYM_ASSERT(has(b, e[i]) && !has(a, e[i]), "extend added a wrong element"); for (size_t j = n1; j < i; j++) SYM_ASSERT(!(e[i] == e[j]), "extend added an element twice"); } }
    { bool present = has(a, x); bool th = false; size_t w = 0; vector<size_t> wa;
      try { w = VectorTools::which(a, x); wa = VectorTools::whichAll(a, x); } catch (ElementNotFoundException<double>&) { th = true; }
      SYM_ASSERT(th == !present, "which/whichAll: 'element not found' raised iff the element is absent");
      if (present) { size_t k = 0; bool first = true; for (int i = 0; i < n1; i++) if (a[i] == x) { if (first) { SYM_ASSERT(w == (size_t)i, "which is not the first matching position"); first = false; } SYM_ASSERT(k < wa.size() && wa[k] == (size_t)i, "whichAll differs"); k++; } SYM_ASSERT(k == wa.size(), "whichAll lists extra positions"); } }
    { int r = __sym_choose("rep", 0, 3); V rp = VectorTools::rep(a, (size_t)r); SYM_ASSERT((int)rp.size() == n1 * r, "rep: wrong length"); for (size_t i = 0; i < rp.size(); i++) SYM_ASSERT(rp[i] == a[i % n1], "rep differs"); }
    { V ap = a; VectorTools::append(ap, b); SYM_ASSERT((int)ap.size() == n1 + n2, "append: wrong length"); for (int i = 0; i < n2; i++) SYM_ASSERT(ap[n1 + i] == b[i], "append differs"); V pp = a; VectorTools::prepend(pp, b); for (int i = 0; i < n2; i++) SYM_ASSERT(pp[i] == b[i], "prepend differs"); for (int i = 0; i < n1; i++) SYM_ASSERT(pp[n2 + i] == a[i], "prepend moved elements wrongly"); }
    break; }
  case 5: {  // sequence generation: from, from+-by, ... up to and including 'to'
    double from = symd("from"), to = symd("to"); int byk = __sym_choose("by", 0, 1); double by = byk ? 0.5 : 1.0;
    SYM_ASSUME(from >= -2 && from <= 2 && to >= -2 && to <= 2);
    V s = VectorTools::seq(from, to, by);
    SYM_ASSERT(s.size() >= 1 && s[0] == from, "sequence does not start at 'from'");
    double dir = from <= to ? 1.0 : -1.0;
    for (size_t i = 0; i < s.size(); i++) SYM_ASSERT_EQ(s[i], from + dir * by * (double)i, "sequence is not arithmetic with the given step");
    double last = s[s.size() - 1];
    if (dir > 0) { SYM_ASSERT(last <= to + by / 100, "sequence overshoots 'to'"); SYM_ASSERT(last + by > to + by / 100, "sequence stops before reaching 'to'"); }
    else { SYM_ASSERT(last >= to - by / 100, "sequence overshoots 'to'"); SYM_ASSERT(last - by < to - by / 100, "sequence stops before reaching 'to'"); }
    break; }
  case 6: {  // log-domain reductions, exact real arithmetic with axiomatised exp/log
    int n = len("n", 1); V a = anyV("a", n); double c = symd("c");
    double M = a[0]; for (int i = 1; i < n; i++) if (a[i] > M) M = a[i];
    double r = VectorTools::logSumExp(a);
    SYM_ASSERT(r >= M, "log-sum-exp is below the maximum"); SYM_ASSERT(exp(r - M) <= (double)n, "log-sum-exp is above max + log n");
    double se = 0; for (int i = 0; i < n; i++) se += exp(a[i] - M);
    if (n > 1) SYM_ASSERT_EQ(exp(r - M), se, "exp(logSumExp - max) differs from the sum of exp(v_i - max)");
    V sh = a; for (auto& y : sh) y += c; SYM_ASSERT_EQ(VectorTools::logSumExp(sh), r + c, "log-sum-exp is not shift-equivariant");
    if (n > 1) { double lm = VectorTools::logMeanExp(a); SYM_ASSERT_EQ(lm, r - std::log((double)n), "log-mean-exp differs from logSumExp - log n"); }
    V w = anyV("w", n); for (double y : w) SYM_ASSUME(y > 0);
    double rw = VectorTools::logSumExp(a, w); double sw = 0; for (int i = 0; i < n; i++) sw += w[i] * exp(a[i] - M);
    SYM_ASSERT_EQ(exp(rw - M), sw, "weighted log-sum-exp differs from log(sum w_i exp v_i)");
    SYM_ASSERT_EQ(VectorTools::logSumExp(sh, w), rw + c, "weighted log-sum-exp is not shift-equivariant");
    SYM_ASSERT_EQ(VectorTools::sumExp(a), se * exp(M), "sumExp differs"); SYM_ASSERT_EQ(VectorTools::sumExp(a, w), sw * exp(M), "weighted sumExp differs");
    V ln = a; VectorTools::logNorm(ln); for (int i = 0; i < n; i++) SYM_ASSERT_EQ(ln[i], a[i] - r, "logNorm differs from v - logSumExp(v)");
    V b1 = anyV("q", 1), b2 = anyV("p", 2); EXPECT(DimensionException, VectorTools::logSumExp(b1, b2), "weighted log-sum-exp of unequal lengths did not raise"); EXPECT(DimensionException, VectorTools::sumExp(b1, b2), "weighted sumExp of unequal lengths did not raise");
    V e; EXPECT(EmptyVectorException<double>, VectorTools::logSumExp(e), "log-sum-exp of an empty vector did not raise"); EXPECT(EmptyVectorException<double>, VectorTools::sumExp(e), "sumExp of an empty vector did not raise");
    double x = symd("x"), y = symd("y"); double ls = NumTools::logsum(x, y); double mxy = x > y ? x : y;
    SYM_ASSERT(ls >= mxy, "pairwise log-sum is below the larger term"); SYM_ASSERT_EQ(exp(ls - mxy), 1.0 + exp((x > y ? y : x) - mxy), "pairwise log-sum differs from log(e^x + e^y)");
    break; }
  case 7: {  // log-domain special values: every entry is log-zero (-inf), +inf or an arbitrary finite real (forked)
    const double INF = numeric_limits<double>::infinity();
    int n = len("n", 1); V a(n); for (int i = 0; i < n; i++) { int k = __sym_choose(("kind" + to_string(i)).c_str(), 0, 2); a[i] = k == 0 ? symd("a" + to_string(i)) : (k == 1 ? -INF : INF); }
    double M = a[0]; for (int i = 1; i < n; i++) if (a[i] > M) M = a[i];
    double r = VectorTools::logSumExp(a);
    SYM_ASSERT(r == r, "log-sum-exp of non-NaN values is NaN"); SYM_ASSERT(r >= M, "log-sum-exp is below the maximum");
    if (M < INF) SYM_ASSERT(r < INF, "log-sum-exp is infinite although no term is");
    if (M == -INF) SYM_ASSERT(r == -INF, "log-sum-exp of log-zeros is not log-zero");
    double s = VectorTools::sumExp(a); SYM_ASSERT(s == s && s >= 0, "sumExp of non-NaN values is NaN or negative"); if (M == -INF) SYM_ASSERT(s == 0.0, "sumExp of log-zeros is not zero");
    if (n > 1) { double lm = VectorTools::logMeanExp(a); SYM_ASSERT(lm == lm, "log-mean-exp of non-NaN values is NaN"); }
    int kx = __sym_choose("kindx", 0, 2), ky = __sym_choose("kindy", 0, 2);
    double x = kx == 0 ? symd("x") : (kx == 1 ? -INF : INF), y = ky == 0 ? symd("y") : (ky == 1 ? -INF : INF);
    double ls = NumTools::logsum(x, y); SYM_ASSERT(ls == ls, "pairwise log-sum of non-NaN values is NaN"); SYM_ASSERT(ls >= x && ls >= y, "pairwise log-sum is below one of its terms");
    if (x == -INF && y == -INF) SYM_ASSERT(ls == -INF, "pairwise log-sum of two log-zeros is not log-zero");
    if (x < INF && y < INF) SYM_ASSERT(ls < INF, "pairwise log-sum is infinite although no term is");
    break; }
  case 11: { // FP mode (z3 Float64, exp/log/log1p as IEEE special-value models): the pairwise log-sum stays finite where the naive formula overflows or underflows.
    // Both terms range over every non-NaN double of magnitude <= 1e300 and over +-inf.
    const double INF = numeric_limits<double>::infinity();
    double x = symd("x"), y = symd("y"); SYM_ASSUME(x == x && y == y); SYM_ASSUME((x <= 1e300 || x == INF) && (y <= 1e300 || y == INF)); SYM_ASSUME((x >= -1e300 || x == -INF) && (y >= -1e300 || y == -INF));
    double ls = NumTools::logsum(x, y);
    SYM_ASSERT(ls == ls, "pairwise log-sum of non-NaN values is NaN (IEEE)"); SYM_ASSERT(ls >= x && ls >= y, "pairwise log-sum is below one of its terms (IEEE)");
    if (x < INF && y < INF) SYM_ASSERT(ls < INF, "pairwise log-sum overflows although no term is infinite (IEEE)");
    if (x == -INF && y == -INF) SYM_ASSERT(ls == -INF, "pairwise log-sum of two log-zeros is not log-zero (IEEE)");
    if (x > -INF || y > -INF) SYM_ASSERT(ls > -INF, "pairwise log-sum underflows to log-zero although a term is not (IEEE)");
    break; }
  case 10: { // weighted mean, covariance, variance, standard deviation, correlation: every combination of the unbiased / normalise flags
    int n = len("n", 2); V a = anyV("a", n), b = anyV("b", n), w(n); double S = 0; for (int i = 0; i < n; i++) { w[i] = sympos("w" + to_string(i)); S += w[i]; }
    int unb = __sym_choose("unbiased", 0, 1), nrm = __sym_choose("normalize", 0, 1);
    V q(n); for (int i = 0; i < n; i++) q[i] = nrm ? w[i] / S : w[i];        // the weights actually used
    double ma = 0, mb = 0, s2 = 0; for (int i = 0; i < n; i++) { ma += q[i] * a[i]; mb += q[i] * b[i]; s2 += q[i] * q[i]; }
    double sab = 0, saa = 0, sbb = 0; for (int i = 0; i < n; i++) { sab += q[i] * (a[i] - ma) * (b[i] - mb); saa += q[i] * (a[i] - ma) * (a[i] - ma); sbb += q[i] * (b[i] - mb) * (b[i] - mb); }
    if (unb) SYM_ASSUME(!(s2 == 1));
    double corr = unb ? 1 - s2 : 1.0;
    SYM_ASSERT_EQ((VectorTools::mean<double, double>(a, w, nrm != 0)), ma, "weighted mean differs from sum w.x");
    SYM_ASSERT_EQ((VectorTools::cov<double, double>(a, b, w, unb != 0, nrm != 0)) * corr, sab, "weighted covariance differs from its definition");
    SYM_ASSERT_EQ((VectorTools::var<double, double>(a, w, unb != 0, nrm != 0)) * corr, saa, "weighted variance differs from its definition");
    if (nrm) { SYM_ASSUME(saa > 0 && sbb > 0); double sd = VectorTools::sd<double, double>(a, w, unb != 0, true); SYM_ASSERT(sd >= 0, "negative weighted standard deviation"); SYM_ASSERT_EQ(sd * sd * corr, saa, "weighted sd^2 differs from the weighted variance");
      double r = VectorTools::cor<double, double>(a, b, w, true); SYM_ASSERT_EQ(r * r * saa * sbb, sab * sab, "weighted correlation differs from cov/(sd.sd)"); SYM_ASSERT((r >= 0) == (sab >= 0), "weighted correlation has the wrong sign"); }
    break; }
  case 9: {  // entropy and mutual information
    double base = symd("base"); SYM_ASSUME(base > 1.001 && base < 100);
    { // entropy of a frequency vector: -sum_{x>0} x log x / log base (zero and negative entries are skipped)
      int n = len("n"); V f = anyV("f", n); for (double x : f) SYM_ASSUME(x >= -1 && x <= 1);
      double want = 0; for (double x : f) if (x > 0) want -= x * log(x) / log(base);
      SYM_ASSERT_EQ((VectorTools::shannon<double, double>(f, base)), want, "entropy of a frequency vector differs from -sum x log x / log base"); }
    { // entropy of a sample: counts by value; mutual information of two samples: counts of pairs
      int n = len("m", 1); V a = anyV("a", n), b = anyV("b", n);
      auto H = [&](const V& u, const V* w) { double h = 0; for (int i = 0; i < n; i++) { bool first = true; int c = 0; for (int j = 0; j < n; j++) { bool same = u[j] == u[i] && (!w || (*w)[j] == (*w)[i]); if (same && j < i) first = false; if (same) c++; }
          if (first) h -= (double(c) / n) * log(double(c) / n) / log(base); } return h; };
      double ha = H(a, nullptr), hb = H(b, nullptr), hab = H(a, &b), L = log(base);
      // compared through exp(m * . * log base): with the logarithms of the count ratios kept as exact atoms this is a product of integer powers of rationals
      SYM_ASSERT_EQ(exp(n * (VectorTools::shannonDiscrete<double, double>(a, base)) * L), exp(n * ha * L), "entropy of a sample differs from the entropy of its value counts");
      double mi = VectorTools::miDiscrete<double, double>(a, b, base);
      SYM_ASSERT_EQ(exp(n * mi * L), exp(n * (ha + hb - hab) * L), "mutual information differs from H(X)+H(Y)-H(X,Y) of the value counts");
      SYM_ASSERT_EQ(exp(n * (VectorTools::miDiscrete<double, double>(b, a, base)) * L), exp(n * mi * L), "mutual information is not symmetric");
      SYM_ASSERT_EQ(exp(n * (VectorTools::miDiscrete<double, double>(a, a, base)) * L), exp(n * ha * L), "mutual information of a sample with itself is not its entropy");
      V shorter(a.begin(), a.begin() + (n - 1)); EXPECT(DimensionException, (VectorTools::miDiscrete<double, double>(a, shorter, base)), "mutual information of samples of different lengths is not refused"); }
    break; }
  default: { // false-discovery-rate adjustment: r_i = p_i * n / rank_i
    int n = len("n"); V p = anyV("p", n); for (double y : p) SYM_ASSUME(y >= 0 && y <= 1);
    V f = StatTools::computeFdr(p); SYM_ASSERT((int)f.size() == n, "FDR: wrong length");
    for (int i = 0; i < n; i++) { int less = 0, leq = 0; for (int j = 0; j < n; j++) { if (p[j] < p[i]) less++; if (p[j] <= p[i]) leq++; }
      bool ok = false; for (int rk = less + 1; rk <= leq; rk++) if (__sym_eq(f[i] * rk, p[i] * n)) ok = true;
      SYM_ASSERT(ok, "FDR differs from p.n/rank"); }
    for (int i = 0; i < n; i++) for (int j = 0; j < n; j++) if (p[i] < p[j]) { int ri = 1, rj = 1; for (int k = 0; k < n; k++) { if (p[k] < p[i]) ri++; if (p[k] < p[j]) rj++; } (void)ri; (void)rj; }
    break; }
  }
}
