// C13: all HMM likelihood algorithms compute the same, correct probability of the data (REAL mode).
// Number of sites, break points, chunk size and the query history are forked; transition probabilities and emissions are solver variables.
// Log-likelihoods are compared through their exp-view (exp(sum log s_i) = prod s_i is carried out exactly by the runtime).
#include <Bpp/Numeric/Hmm/HmmStateAlphabet.h>
#include <Bpp/Numeric/Hmm/HmmTransitionMatrix.h>
#include <Bpp/Numeric/Hmm/HmmEmissionProbabilities.h>
#include <Bpp/Numeric/Hmm/RescaledHmmLikelihood.h>
#include <Bpp/Numeric/Hmm/LowMemoryRescaledHmmLikelihood.h>
#include <Bpp/Numeric/Hmm/LogsumHmmLikelihood.h>
#include <Bpp/Numeric/Hmm/FullHmmTransitionMatrix.h>
#include <Bpp/Numeric/Hmm/AutoCorrelationTransitionMatrix.h>
#include <Bpp/Numeric/AbstractParametrizable.h>
#include <Bpp/Numeric/Matrix/Matrix.h>
#include <Bpp/Numeric/Number.h>
#include <Bpp/App/ApplicationTools.h>
#include "symrt.h"
#include <cmath>
#include <memory>
using namespace bpp;
using namespace std;
#ifndef LMAX
#define LMAX 3
#endif
#ifndef NST
#define NST 2
#endif
typedef vector<vector<double>> VV;

class Alpha : public HmmStateAlphabet, public AbstractParametrizable {
  size_t n_; Number<int> dummy_;
public:
  Alpha(size_t n) : AbstractParametrizable(""), n_(n), dummy_(0) {}
  Alpha* clone() const override { return new Alpha(*this); }
  const Clonable& getState(size_t) const override { return dummy_; }
  size_t getNumberOfStates() const override { return n_; }
  bool worksWith(const HmmStateAlphabet& a) const override { return a.getNumberOfStates() == n_; }
};
class Trans : public HmmTransitionMatrix, public AbstractParametrizable {
  shared_ptr<const HmmStateAlphabet> alph_; RowMatrix<double> p_; vector<double> eq_;
public:
  Trans(shared_ptr<const HmmStateAlphabet> alph, const VV& p, const vector<double>& eq) : AbstractParametrizable(""), alph_(alph), p_(p.size(), p.size()), eq_(eq) { for (size_t i = 0; i < p.size(); i++) for (size_t j = 0; j < p.size(); j++) p_(i, j) = p[i][j]; }
  Trans* clone() const override { return new Trans(*this); }
  const HmmStateAlphabet& hmmStateAlphabet() const override { return *alph_; }
  shared_ptr<const HmmStateAlphabet> getHmmStateAlphabet() const override { return alph_; }
  void setHmmStateAlphabet(shared_ptr<const HmmStateAlphabet> a) override { alph_ = a; }
  size_t getNumberOfStates() const override { return eq_.size(); }
  double Pij(size_t i, size_t j) const override { return p_(i, j); }
  const Matrix<double>& getPij() const override { return p_; }
  const vector<double>& getEquilibriumFrequencies() const override { return eq_; }
};
// emissions; the entry for (site 0, state 0) is a parameter "e00" so that parameter updates can be interleaved with queries
class Emis : public HmmEmissionProbabilities, public AbstractParametrizable {
  shared_ptr<const HmmStateAlphabet> alph_; VV e_; mutable VV de_, d2e_; bool square_;   // square_: the entry (site 1, state 0) is e00^2, so the parameter acts on two sites
public:
  Emis(shared_ptr<const HmmStateAlphabet> alph, const VV& e, bool square = false) : AbstractParametrizable(""), alph_(alph), e_(e), de_(e.size(), vector<double>(e[0].size(), 0.0)), d2e_(de_), square_(square) { addParameter_(new Parameter("e00", e[0][0])); }
  Emis* clone() const override { return new Emis(*this); }
  void fireParameterChanged(const ParameterList&) override { e_[0][0] = getParameterValue("e00"); if (square_ && e_.size() > 1) e_[1][0] = e_[0][0] * e_[0][0]; }
  void computeDEmissionProbabilities(std::string& variable) const override { for (auto& r : de_) for (auto& x : r) x = 0; if (variable == "e00") { de_[0][0] = 1; if (square_ && e_.size() > 1) de_[1][0] = 2 * e_[0][0]; } }
  void computeD2EmissionProbabilities(std::string& variable) const override { for (auto& r : d2e_) for (auto& x : r) x = 0; if (variable == "e00" && square_ && e_.size() > 1) d2e_[1][0] = 2; }
  const vector<double>& getDEmissionProbabilities(size_t pos) const override { return de_[pos]; }
  const vector<double>& getD2EmissionProbabilities(size_t pos) const override { return d2e_[pos]; }
  const HmmStateAlphabet& hmmStateAlphabet() const override { return *alph_; }
  shared_ptr<const HmmStateAlphabet> getHmmStateAlphabet() const override { return alph_; }
  void setHmmStateAlphabet(shared_ptr<const HmmStateAlphabet> a) override { alph_ = a; }
  double operator()(size_t pos, size_t state) const override { return e_[pos][state]; }
  const vector<double>& operator()(size_t pos) const override { return e_[pos]; }
  size_t getNumberOfPositions() const override { return e_.size(); }
};
// reference: sum over all hidden paths, chain started from eq and restarted at each break point
static void enumerate(const VV& P, const vector<double>& eq, const VV& E, const vector<bool>& isBp, double& tot, VV& acc) {
  size_t n = P.size(), L = E.size(); tot = 0; acc.assign(L, vector<double>(n, 0.0)); vector<size_t> path(L, 0);
  while (true) {
    double pr = 1; for (size_t i = 0; i < L; i++) { if (i == 0 || isBp[i]) pr *= eq[path[i]]; else pr *= P[path[i - 1]][path[i]]; pr *= E[i][path[i]]; }
    tot += pr; for (size_t i = 0; i < L; i++) acc[i][path[i]] += pr;
    size_t d = 0; while (d < L && ++path[d] == n) { path[d] = 0; d++; } if (d == L) break; }
}
static void checkPosteriors(HmmLikelihood& lik, const VV& acc, double tot, const VV& E, const char* who) {
  size_t L = E.size(), n = E[0].size(); VV pp; lik.getHiddenStatesPosteriorProbabilities(pp, false);
  SYM_ASSERT(pp.size() == L, "posterior table has the wrong number of positions");
  Vdouble each = lik.getLikelihoodForEachSite();
  for (size_t i = 0; i < L; i++) { double s = 0, le = 0; Vdouble one = lik.getHiddenStatesPosteriorProbabilitiesForASite(i);
    for (size_t j = 0; j < n; j++) { SYM_ASSERT(pp[i][j] >= 0, "negative posterior probability"); s += pp[i][j]; le += pp[i][j] * E[i][j];
      SYM_ASSERT_EQ(pp[i][j] * tot, acc[i][j], "posterior probability differs from path enumeration"); SYM_ASSERT_EQ(one[j], pp[i][j], "single-position posterior differs from the all-positions query"); }
    SYM_ASSERT_EQ(s, 1.0, "posterior probabilities do not sum to one"); SYM_ASSERT_EQ(each[i], le, "per-position likelihood is not consistent with the posteriors"); SYM_ASSERT_EQ(lik.getLikelihoodForASite(i), le, "single-position likelihood is not consistent with the posteriors"); }
  (void)who;
}

extern "C" void verif_harness() {
  ApplicationTools::message = nullptr; ApplicationTools::warning = nullptr; ApplicationTools::error = nullptr;
  int which = __sym_choose("harness", HLO, HHI);
  if (which <= 1) {
    int L = __sym_choose("sites", 1, LMAX); const int n = NST;
    // transition rows and their stationary distribution (2 states: exact closed form; 3 states: one symbolic row, the others fixed, stationary vector solved by hand below)
    VV P(n, vector<double>(n)); vector<double> eq(n);
    // every quantity is built from positive unknowns by +, *, / only, so positivity of scales and probabilities is syntactic for the runtime
#ifdef PARAM_AB
    if (n == 2) { double a = symd("a"), b = symd("b"); SYM_ASSUME(a > 0 && a < 1 && b > 0 && b < 1); P[0][0] = 1 - a; P[0][1] = a; P[1][0] = b; P[1][1] = 1 - b; eq[0] = b / (a + b); eq[1] = a / (a + b); } else
#endif
    if (n == 2) { double u0 = sympos("w00"), u1 = sympos("w01"), v0 = sympos("w10"), v1 = sympos("w11");
      P[0][0] = u0 / (u0 + u1); P[0][1] = u1 / (u0 + u1); P[1][0] = v0 / (v0 + v1); P[1][1] = v1 / (v0 + v1);
      eq[0] = P[1][0] / (P[0][1] + P[1][0]); eq[1] = P[0][1] / (P[0][1] + P[1][0]); }
    else { double u0 = sympos("w00"), u1 = sympos("w01"), u2 = sympos("w02");     // row 0 arbitrary, rows 1,2 fixed; stationary vector by cofactors of (I - P), written with positive terms only
      double su = u0 + u1 + u2; P[0][0] = u0 / su; P[0][1] = u1 / su; P[0][2] = u2 / su; P[1][0] = 0.25; P[1][1] = 0.5; P[1][2] = 0.25; P[2][0] = 0.5; P[2][1] = 0.125; P[2][2] = 0.375;
      // pi_j proportional to the sum over spanning trees rooted at j of the product of edge probabilities (Markov chain tree theorem): all terms positive
      double w0 = P[1][0] * P[2][0] + P[1][0] * P[2][1] + P[1][2] * P[2][0], w1 = P[0][1] * P[2][1] + P[0][1] * P[2][0] + P[0][2] * P[2][1], w2 = P[0][2] * P[1][2] + P[0][2] * P[1][0] + P[0][1] * P[1][2], sw = w0 + w1 + w2;
      eq[0] = w0 / sw; eq[1] = w1 / sw; eq[2] = w2 / sw; }
    VV E(L, vector<double>(n)); for (int i = 0; i < L; i++) for (int j = 0; j < n; j++) E[i][j] = sympos("e" + to_string(i) + to_string(j));
#ifdef ZMAX
    // zero entries (exact zeros, not small numbers): an absorbing state, a forbidden self-transition, an impossible emission
    { int zp = __sym_choose("zeroEntry", ZMIN, ZMAX);
      if (zp == 1 && n == 2) { P[0][0] = 1; P[0][1] = 0; eq[0] = 1; eq[1] = 0; }
      if (zp == 2 && n == 2) { double b = P[1][0]; P[0][0] = 0; P[0][1] = 1; eq[0] = b / (1 + b); eq[1] = 1 / (1 + b); }
      if (zp == 3) E[0][1] = 0;
      if (zp == 4 && L > 1) E[1][0] = 0;
      if (zp == 5 && n == 2) { double b = P[1][0]; P[0][0] = 0; P[0][1] = 1; eq[0] = b / (1 + b); eq[1] = 1 / (1 + b); E[L - 1][1] = 0; } }
#endif
    vector<bool> isBp(L, false); vector<size_t> bps; for (int i = 1; i < L; i++) if (__sym_choose(("break" + to_string(i)).c_str(), 0, 1)) { isBp[i] = true; bps.push_back(i); }
    auto al = make_shared<Alpha>(n); auto tr = make_shared<Trans>(al, P, eq); auto em = make_shared<Emis>(al, E);
    double tot; VV acc; enumerate(P, eq, E, isBp, tot, acc);
#ifdef LOWMEM_ONLY
    if (which == 0) {
      // ---- low-memory algorithm alone (longer sequences): every chunk size against path enumeration ----
      int chunk = __sym_choose("chunk", 1, L + 1);
      LowMemoryRescaledHmmLikelihood lm(al, tr, em, "", (size_t)chunk); lm.setBreakPoints(bps);
      SYM_ASSERT_EQ(exp(lm.getLogLikelihood()), tot, "low-memory algorithm: likelihood differs from the sum over hidden paths");
      return; }
#endif
    if (which == 0) {
      // ---- rescaled and low-memory algorithms ----
      RescaledHmmLikelihood r(al, tr, em, ""); r.setBreakPoints(bps);
      SYM_ASSERT_EQ(exp(r.getLogLikelihood()), tot, "rescaled algorithm: likelihood differs from the sum over hidden paths");
      SYM_ASSERT_EQ(exp(-r.getValue()), tot, "rescaled algorithm: function value is not minus the log-likelihood");
      checkPosteriors(r, acc, tot, E, "rescaled");
      int chunk = __sym_choose("chunk", 1, L + 1);
      auto al2 = make_shared<Alpha>(n); auto tr2 = make_shared<Trans>(al2, P, eq); auto em2 = make_shared<Emis>(al2, E);
      LowMemoryRescaledHmmLikelihood lm(al2, tr2, em2, "", (size_t)chunk); lm.setBreakPoints(bps);
      SYM_ASSERT_EQ(exp(lm.getLogLikelihood()), tot, "low-memory algorithm: likelihood differs from the sum over hidden paths");
      // history: update a parameter after queries were made; the answers must be those of the new parameter values only
      double e2 = sympos("e00new"); SYM_ASSUME(!(e2 == E[0][0]));
      ParameterList pl; pl.addParameter(Parameter("e00", e2));
      int order = __sym_choose("updateOrder", 0, 1);
      if (order == 0) { r.setParameters(pl); lm.setParameters(pl); } else { lm.matchParametersValues(pl); r.matchParametersValues(pl); }
      VV E2 = E; E2[0][0] = e2; double tot2; VV acc2; enumerate(P, eq, E2, isBp, tot2, acc2);
      SYM_ASSERT_EQ(exp(r.getLogLikelihood()), tot2, "rescaled algorithm after a parameter update: likelihood is not that of the new parameter values");
      SYM_ASSERT_EQ(exp(lm.getLogLikelihood()), tot2, "low-memory algorithm after a parameter update: likelihood is not that of the new parameter values");
      checkPosteriors(r, acc2, tot2, E2, "rescaled after update");
    } else {
      // ---- log-sum algorithm ----
      LogsumHmmLikelihood g(al, tr, em, ""); g.setBreakPoints(bps); g.computeLikelihood();
      SYM_ASSERT_EQ(exp(g.getLogLikelihood()), tot, "log-sum algorithm: likelihood differs from the sum over hidden paths");
      checkPosteriors(g, acc, tot, E, "logsum");
    }
  } else if (which == 3) {
    // ---- derivatives of the log-likelihood with respect to an emission parameter acting on one or two sites, against the derivative of the path-enumeration polynomial ----
    int L = __sym_choose("sites", 1, LMAX); const int n = 2; VV P(n, vector<double>(n)); vector<double> eq(n);
#ifdef PARAM_AB
    { double a = symd("a"), b = symd("b"); SYM_ASSUME(a > 0 && a < 1 && b > 0 && b < 1); P[0][0] = 1 - a; P[0][1] = a; P[1][0] = b; P[1][1] = 1 - b; eq[0] = b / (a + b); eq[1] = a / (a + b); }
#else
    { double u0 = sympos("w00"), u1 = sympos("w01"), v0 = sympos("w10"), v1 = sympos("w11");
    P[0][0] = u0 / (u0 + u1); P[0][1] = u1 / (u0 + u1); P[1][0] = v0 / (v0 + v1); P[1][1] = v1 / (v0 + v1); eq[0] = P[1][0] / (P[0][1] + P[1][0]); eq[1] = P[0][1] / (P[0][1] + P[1][0]); }
#endif
    double th = sympos("e00"); int square = L > 1 ? __sym_choose("actsOnTwoSites", 0, 1) : 0;
    VV E(L, vector<double>(n)); for (int i = 0; i < L; i++) for (int j = 0; j < n; j++) E[i][j] = (i == 0 && j == 0) ? th : ((i == 1 && j == 0 && square) ? th * th : sympos("e" + to_string(i) + to_string(j)));
    vector<bool> isBp(L, false); vector<size_t> bps; for (int i = 1; i < L; i++) if (__sym_choose(("break" + to_string(i)).c_str(), 0, 1)) { isBp[i] = true; bps.push_back(i); }
    // history: optionally the derivatives are first queried at another value of the parameter, which is then updated to th (the answers must be those of the current value)
    int stale = (L == 1 || (isBp[1] && !square)) ? __sym_choose("queryThenUpdate", 0, 1) : 0; double th0 = th; VV E0 = E;   /* (one site, or two sites separated by a break point: the other shapes leave the solver's reach with the extra round, measured) */
    if (stale) { th0 = 0.625; SYM_ASSUME(!(th0 == th));   /* a concrete earlier value keeps the first round of queries out of the solver */ E0[0][0] = th0; if (square && L > 1) E0[1][0] = th0 * th0; }
    auto al = make_shared<Alpha>(n); auto tr = make_shared<Trans>(al, P, eq); auto em = make_shared<Emis>(al, E0, square != 0);
    double tot; VV acc; enumerate(P, eq, E, isBp, tot, acc);
#ifdef SYM_REPLAY
    // native replay of a counterexample: derivatives of the enumeration polynomial by fourth-order finite differences (compared with the replay tolerance)
    auto F = [&](double t) { VV E2 = E; E2[0][0] = t; if (square && L > 1) E2[1][0] = t * t; double tt; VV aa; enumerate(P, eq, E2, isBp, tt, aa); return tt; };
    double hh = 1e-3 * th; double d1 = (-F(th + 2 * hh) + 8 * F(th + hh) - 8 * F(th - hh) + F(th - 2 * hh)) / (12 * hh), d2 = (-F(th + 2 * hh) + 16 * F(th + hh) - 30 * F(th) + 16 * F(th - hh) - F(th - 2 * hh)) / (12 * hh * hh);
#else
    double d1 = __sym_diff(tot, th), d2 = __sym_diff(d1, th);
#endif
    double wantD1 = d1 / tot, wantD2 = d2 / tot - (d1 / tot) * (d1 / tot);      // derivatives of log(tot)
    int algo = __sym_choose("algorithm", 0, 1); int order = __sym_choose("secondFirst", 0, 1);
    unique_ptr<HmmLikelihood> lik; if (algo == 0) { auto r = new RescaledHmmLikelihood(al, tr, em, ""); r->setBreakPoints(bps); lik.reset(r); } else { auto g = new LogsumHmmLikelihood(al, tr, em, ""); g->setBreakPoints(bps); lik.reset(g); }
    if (stale) { (void)lik->getFirstOrderDerivative("e00"); (void)lik->getSecondOrderDerivative("e00"); ParameterList upd; upd.addParameter(Parameter("e00", th)); lik->setParameters(upd); }
    double g2a = 0; if (order) g2a = lik->getSecondOrderDerivative("e00");
    double g1 = lik->getFirstOrderDerivative("e00"), g2 = lik->getSecondOrderDerivative("e00");
    SYM_ASSERT_EQ(g1, -wantD1, "first derivative of the (minus) log-likelihood differs from the derivative of the path-enumeration polynomial");
    SYM_ASSERT_EQ(g2, -wantD2, "second derivative of the (minus) log-likelihood differs from the second derivative of the path-enumeration polynomial");
    if (order) SYM_ASSERT_EQ(g2a, -wantD2, "second derivative queried before the first differs (answers depend on the order of earlier queries)");
    SYM_ASSERT_EQ(lik->getFirstOrderDerivative("e00"), -wantD1, "first derivative changed after the second derivative was queried");
  } else {
    // ---- built-in transition models: rows sum to one, the equilibrium vector is stationary ----
    int model = __sym_choose("model", 0, 1); int n = __sym_choose("states", 2, 3);
    auto al = make_shared<Alpha>(n); unique_ptr<HmmTransitionMatrix> tm;
    int concrete = 0;
    if (model == 0) { auto f = new FullHmmTransitionMatrix(al, ""); tm.reset(f);
      // the equilibrium vector is row 0 of P^256 (a degree-256 polynomial in the parameters), out of reach symbolically: this model is run at forked concrete parameter values only (its rows are Simplex objects, covered symbolically by C19)
      concrete = __sym_choose("concreteParameters", 1, 2); static const double CV[3][6] = {{0,0,0,0,0,0}, {0.3, 0.6, 0.2, 0.7, 0.45, 0.15}, {0.9, 0.05, 0.5, 0.5, 0.25, 0.8}};
      ParameterList pl = f->getParameters(); for (size_t i = 0; i < pl.size(); i++) { double x; if (concrete) x = CV[concrete][i % 6]; else { x = symd("theta" + to_string(i)); SYM_ASSUME(x > 0.01 && x < 0.99); } pl[i].setValue(x); }
      int early = __sym_choose("queryBeforeUpdate", 0, 2); if (early == 1) f->getPij(); else if (early == 2) f->getEquilibriumFrequencies();
      f->matchParametersValues(pl); }
    else { auto f = new AutoCorrelationTransitionMatrix(al, ""); tm.reset(f);
      ParameterList pl = f->getParameters(); for (size_t i = 0; i < pl.size(); i++) { double x = symd("lambda" + to_string(i)); SYM_ASSUME(x > 0.01 && x < 0.99); pl[i].setValue(x); }
      int early = __sym_choose("queryBeforeUpdate", 0, 2); if (early == 1) f->getPij(); else if (early == 2) f->getEquilibriumFrequencies();
      f->matchParametersValues(pl); }
    int first = __sym_choose("firstQuery", 0, 1);
    vector<double> eq; if (first == 0) eq = tm->getEquilibriumFrequencies();
    const Matrix<double>& P = tm->getPij(); if (first == 1) eq = tm->getEquilibriumFrequencies();
    SYM_ASSERT((int)P.getNumberOfRows() == n && (int)P.getNumberOfColumns() == n && (int)eq.size() == n, "transition model: wrong dimensions");
    for (int i = 0; i < n; i++) { double s = 0; for (int j = 0; j < n; j++) { SYM_ASSERT(P(i, j) >= 0, "negative transition probability"); SYM_ASSERT_EQ(P(i, j), tm->Pij(i, j), "Pij(i,j) differs from the matrix"); s += P(i, j); } SYM_ASSERT_EQ(s, 1.0, "a transition row does not sum to one"); }
    if (model == 0 && !concrete) return;
    double se = 0; for (int i = 0; i < n; i++) { SYM_ASSERT(eq[i] >= 0, "negative equilibrium frequency"); se += eq[i]; }
    SYM_ASSERT(__sym_eq_tol(se, 1.0, 1e-9), "equilibrium frequencies do not sum to one");
    for (int j = 0; j < n; j++) { double s = 0; for (int i = 0; i < n; i++) s += eq[i] * P(i, j); SYM_ASSERT(__sym_eq_tol(s, eq[j], 1e-9), "the equilibrium vector is not a stationary distribution of the transition matrix"); }
  }
}
