// shared helpers for matrix harnesses
#pragma once
#include <Bpp/Numeric/Matrix/Matrix.h>
#include <Bpp/Numeric/Matrix/MatrixTools.h>
#include <memory>
#include <string>
#include "symrt.h"
using namespace bpp;
typedef std::unique_ptr<Matrix<double>> MP;
static inline MP mkMatrix(int kind, size_t r, size_t c) {
  if (kind == 0) return MP(new RowMatrix<double>(r, c));
  if (kind == 1) return MP(new ColMatrix<double>(r, c));
  return MP(new LinearMatrix<double>(r, c));
}
static inline int anyKind(const std::string& tag) { return __sym_choose((tag + ".storage").c_str(), 0, 2); }
static inline void fillSym(Matrix<double>& M, const std::string& tag) {
  for (size_t i = 0; i < M.getNumberOfRows(); i++) for (size_t j = 0; j < M.getNumberOfColumns(); j++) M(i, j) = symd(tag + std::to_string(i) + std::to_string(j));
}
