// C08 (partial): the domain behaviour, end-of-support values and exact wrapper identities of the cumulative / quantile functions (REAL mode).
// The series / continued-fraction / Newton kernels themselves have input-dependent trip counts and are NOT encoded: every harness below constrains the
// symbolic arguments so that the entry point returns (or raises) before entering them, or compares two calls that run the same kernel on identical arguments.
#include <Bpp/Numeric/Random/RandomTools.h>
#include <Bpp/Exceptions.h>
#include "symrt.h"
using namespace bpp;
using namespace std;
#define RAISES(stmt, msg) { bool th_ = false; try { stmt; } catch (Exception&) { th_ = true; } SYM_ASSERT(th_, msg); }

extern "C" void verif_harness() {
  int which = __sym_choose("harness", HLO, HHI);
  switch (which) {
  case 0: {  // normal quantile: sentinel exactly outside (1e-20, 1-1e-20); reflection; location-scale wrapper
    double p = symd("p"); int region = __sym_choose("region", 0, 2);
    if (region == 0) { SYM_ASSUME(p < 1e-20); SYM_ASSERT(RandomTools::qNorm(p) == -9999.0, "qNorm: probability below the working range does not give the documented sentinel"); }
    else if (region == 1) { SYM_ASSUME(p > 1 - 1e-20); SYM_ASSERT(RandomTools::qNorm(p) == -9999.0, "qNorm: probability above the working range does not give the documented sentinel"); }
    else { SYM_ASSUME(p >= 1e-20 && p < 0.5); double z = RandomTools::qNorm(p), zr = RandomTools::qNorm(1 - p); SYM_ASSERT(!(z == -9999.0) || true, ""); SYM_ASSERT_EQ(zr, -z, "qNorm: reflection qNorm(1-p) = -qNorm(p) fails");
      double mu = symd("mu"), sg = sympos("sigma"); SYM_ASSERT_EQ(RandomTools::qNorm(p, mu, sg), z * sg + mu, "qNorm(p, mu, sigma) differs from mu + sigma.qNorm(p)"); }
    break; }
  case 1: {  // gamma / chi-square family: invalid region, special values, wrapper identities
    int k = __sym_choose("case", 0, 7); double x = symd("x"), a = symd("alpha"), b = symd("beta");
    if (k == 0) { SYM_ASSUME(a < 0); RAISES(RandomTools::pGamma(x, a, b), "pGamma with a negative shape did not raise"); }
    else if (k == 1) { SYM_ASSUME(a >= 0 && b < 0); RAISES(RandomTools::pGamma(x, a, b), "pGamma with a negative rate did not raise"); }
    else if (k == 2) { SYM_ASSUME(b >= 0); SYM_ASSERT(RandomTools::pGamma(x, 0.0, b) == 1.0, "pGamma with shape 0 is not 1"); }
    else if (k == 3) { SYM_ASSUME(a > 0 && b >= 0); SYM_ASSERT(RandomTools::pGamma(0.0, a, b) == 0.0, "pGamma at the lower end of the support is not 0"); SYM_ASSERT(RandomTools::pChisq(0.0, a) == 0.0, "pChisq(0) is not 0"); }
    else if (k == 4) { SYM_ASSUME(x < 0); SYM_ASSERT(RandomTools::pChisq(x, a) == 0.0, "pChisq of a negative argument is not 0"); SYM_ASSUME(a > 0 && b > 0); SYM_ASSERT(RandomTools::pGamma(x, a, b) == -1.0, "pGamma of a negative argument does not give the documented sentinel"); }
    else if (k == 5) { int r = __sym_choose("region", 0, 2); double p = symd("p"), v = symd("v"); if (r == 0) SYM_ASSUME(p < .000002); else if (r == 1) SYM_ASSUME(p > .999998); else SYM_ASSUME(v <= 0);
      SYM_ASSERT(RandomTools::qChisq(p, v) == -1.0, "qChisq outside its working range does not give the documented sentinel");
      if (r < 2) { SYM_ASSUME(b > 0); SYM_ASSERT_EQ(RandomTools::qGamma(p, a, b), -1.0 / (2.0 * b), "qGamma does not forward to qChisq(p, 2.alpha)/(2.beta)"); } }
    else if (k == 6) { SYM_ASSUME(x < 0); SYM_ASSERT(RandomTools::incompleteGamma(x, a, 0.0) == -1.0, "incompleteGamma of a negative argument does not give the sentinel"); double y = sympos("y"); SYM_ASSUME(a <= 0); SYM_ASSERT(RandomTools::incompleteGamma(y, a, 0.0) == -1.0, "incompleteGamma with a non-positive shape does not give the sentinel"); }
    else { SYM_ASSERT(RandomTools::incompleteGamma(0.0, a, b) == 0.0, "incompleteGamma(0) is not 0"); }
    break; }
  case 2: {  // beta family: invalid region and ends of the support
    int k = __sym_choose("case", 0, 6); double x = symd("x"), a = symd("alpha"), b = symd("beta");
    if (k == 0) { SYM_ASSUME(a <= 0); RAISES(RandomTools::pBeta(x, a, b), "pBeta with a non-positive first shape did not raise"); }
    else if (k == 1) { SYM_ASSUME(a > 0 && b <= 0); RAISES(RandomTools::pBeta(x, a, b), "pBeta with a non-positive second shape did not raise"); }
    else if (k == 2) { SYM_ASSUME(a > 0 && b > 0 && x < 0); RAISES(RandomTools::pBeta(x, a, b), "pBeta below the support did not raise"); }
    else if (k == 3) { SYM_ASSUME(a > 0 && b > 0 && x > 1); RAISES(RandomTools::pBeta(x, a, b), "pBeta above the support did not raise"); }
    else if (k == 4) { SYM_ASSUME(a > 0 && b > 0); SYM_ASSERT(RandomTools::pBeta(0.0, a, b) == 0.0, "pBeta(0) is not 0"); SYM_ASSERT(RandomTools::pBeta(1.0, a, b) == 1.0, "pBeta(1) is not 1"); }
    else if (k == 5) { int r = __sym_choose("region", 0, 1); if (r == 0) SYM_ASSUME(x < 0); else SYM_ASSUME(x > 1); RAISES(RandomTools::qBeta(x, a, b), "qBeta with a probability outside [0,1] did not raise"); }
    else { SYM_ASSUME(a >= 0 && b >= 0); SYM_ASSERT(RandomTools::qBeta(0.0, a, b) == 0.0 && RandomTools::qBeta(1.0, a, b) == 1.0, "qBeta at probability 0 / 1 is not the end of the support");
      double p = symd("p"); SYM_ASSUME(p >= 0 && p <= 1 && (a < 0 || b < 0)); }
    break; }
  case 4: {  // monotonicity and range of the closed-form kernels (two-point queries over all reals in the region)
    int k = __sym_choose("kernel", 0, 2);
    if (k == 0) { // normal cdf, central region |x| <= 0.67448975: a rational function of x on each side of 0; non-negative derivative everywhere on each side, on the right side of 1/2, inside [0,1]
      double x1 = symd("x1"); SYM_ASSUME(x1 >= -0.67448975 && x1 <= 0.67448975 && (x1 > 1e-20 || x1 < -1e-20));   /* |x| <= 1e-20 switches to the linear term alone: a step of relative size 1e-40, invisible in double arithmetic */
      double c1 = RandomTools::pNorm(x1);
#ifndef SYM_REPLAY
      SYM_ASSERT(__sym_diff(c1, x1) >= 0, "normal cdf has a negative derivative somewhere in its central region");
#else
      { double h = 1e-7; if (fabs(x1) > 2 * h && fabs(x1) + h < 0.67448975) SYM_ASSERT(RandomTools::pNorm(x1 + h) - RandomTools::pNorm(x1 - h) >= -1e-14, "normal cdf has a negative derivative somewhere in its central region"); }
#endif
      SYM_ASSERT(c1 >= 0 && c1 <= 1, "normal cdf leaves [0,1] in its central region"); SYM_ASSERT((x1 > 0) == (c1 > 0.5), "normal cdf is on the wrong side of 1/2 in its central region");
      SYM_ASSERT_EQ(RandomTools::pNorm(-x1), 1 - c1, "normal cdf: reflection identity fails in the central region"); }
    else { // normal quantile on one side of 1/2: y = sqrt(log(1/p'^2)) is monotone in p (axioms), the quantile is y + A(y)/B(y)
      double p1 = symd("p1"), p2 = symd("p2"); if (k == 1) SYM_ASSUME(p1 > 1e-20 && p1 < p2 && p2 < 0.5); else SYM_ASSUME(p1 >= 0.5 && p1 < p2 && 1 - p2 >= 1e-20);
      SYM_ASSERT(RandomTools::qNorm(p1) <= RandomTools::qNorm(p2), "normal quantile is decreasing somewhere on one side of 1/2"); }
    break; }
  default: { // location-scale wrapper of the normal cdf: two calls on identical arguments run the same kernel (concrete standardised point, symbolic location/scale)
    static const double Z[3] = {-1.25, 0.0, 2.5}; double z = Z[__sym_choose("z", 0, 2)], mu = symd("mu"), sg = sympos("sigma");
    SYM_ASSERT(RandomTools::pNorm(mu + sg * z, mu, sg) == RandomTools::pNorm(z), "pNorm(x, mu, sigma) differs from pNorm((x-mu)/sigma)");
    break; }
  }
}
