// C06 (partial): eigen-decomposition on the inputs whose iteration exits at once: 1x1, symmetric 2x2 (one implicit QL sweep), 2x2 diagonal and triangular non-symmetric input (REAL mode, sqrt axiomatised).
#include "hmat.h"
#include <Bpp/Numeric/Matrix/EigenValue.h>
#include <cmath>
using namespace std;
extern "C" void verif_harness() {
  int which = __sym_choose("harness", HLO, HHI);
  int ka = anyKind("A");
  int n = which == 0 ? 1 : (which == 4 ? 3 : 2);
  MP A = mkMatrix(ka, n, n);
  if (which == 0) (*A)(0, 0) = symd("a00");
  else if (which == 1) { double a = symd("a"), b = symd("b"), c = symd("c"); SYM_ASSUME(!(b == 0)); (*A)(0, 0) = a; (*A)(0, 1) = b; (*A)(1, 0) = b; (*A)(1, 1) = c; }           // symmetric, coupled
  else if (which == 2) { double a = symd("a"), c = symd("c"); (*A)(0, 0) = a; (*A)(0, 1) = 0; (*A)(1, 0) = 0; (*A)(1, 1) = c; }                                                     // diagonal (symmetric path)
  else if (which == 4) { double a = symd("a"), b = symd("b"), c = symd("c"), d = symd("d"); int pos = __sym_choose("isolated", 0, 2);      // 3x3 symmetric, a coupled 2x2 block plus an isolated diagonal entry (the QL iteration splits)
    int p = pos == 0 ? 1 : 0, q = pos == 2 ? 1 : 2; for (int i = 0; i < 3; i++) for (int j = 0; j < 3; j++) (*A)(i, j) = 0; (*A)(p, p) = a; (*A)(q, q) = c; (*A)(p, q) = b; (*A)(q, p) = b; (*A)(pos, pos) = d; SYM_ASSUME(b > 0.001 || b < -0.001); }
  else if (which == 5) { double a = symd("a"), b = symd("b"); int lower = __sym_choose("lower", 0, 1); (*A)(0, 0) = a; (*A)(1, 1) = a; (*A)(0, 1) = lower ? 0 : b; (*A)(1, 0) = lower ? b : 0; SYM_ASSUME(b > 0.001 || b < -0.001); }   // defective: a 2x2 Jordan block (repeated eigenvalue, one eigenvector)
  else { double a = symd("a"), b = symd("b"), c = symd("c"); int lower = __sym_choose("lower", 0, 1); SYM_ASSUME(!(b == 0) && !(a == c)); (*A)(0, 0) = a; (*A)(1, 1) = c; (*A)(0, 1) = lower ? 0 : b; (*A)(1, 0) = lower ? b : 0; }   // triangular, distinct eigenvalues (non-symmetric path)
  // moderate magnitudes and a clearly non-negligible coupling: the kernels treat an off-diagonal entry below 2^-52 times the neighbouring diagonal as zero
  // (a relative-epsilon decision; the exact equations below are claimed away from that regime)
  for (int i = 0; i < n; i++) for (int j = 0; j < n; j++) { double x = (*A)(i, j); SYM_ASSUME(x >= -100 && x <= 100); if (i != j && which != 2 && which != 4 && which != 5 && !(which == 3 && ((*A)(i, j) == 0))) SYM_ASSUME(x > 0.001 || x < -0.001); }
  EigenValue<double> ev(*A);
  const RowMatrix<double>& V = ev.getV(); const RowMatrix<double>& D = ev.getD();
  vector<double> re = ev.getRealEigenValues(), im = ev.getImagEigenValues();
  SYM_ASSERT((int)V.getNumberOfRows() == n && (int)V.getNumberOfColumns() == n && (int)D.getNumberOfRows() == n && (int)re.size() == n && (int)im.size() == n, "decomposition has the wrong dimensions");
  SYM_ASSERT(ev.isSymmetric() == (which <= 2 || which == 4), "symmetry dispatch differs from A == transpose(A)");
  if (which == 5) {   // defective input: the eigenvector column is obtained by dividing by eps.|A| instead of 0, so A.V = V.D holds to a small multiple of eps.|A|.|V| (the property's tolerance), not exactly
    double nA = 0, nV = 0; for (int i = 0; i < n; i++) for (int j = 0; j < n; j++) { nA += fabs((*A)(i, j)); nV += fabs(V(i, j)); }
    for (int i = 0; i < n; i++) for (int j = 0; j < n; j++) { double av = 0, vd = 0; for (int k = 0; k < n; k++) { av += (*A)(i, k) * V(k, j); vd += V(i, k) * D(k, j); } SYM_ASSERT(fabs(av - vd) <= 16 * 2.220446049250313e-16 * nA * nV, "A.V differs from V.D by more than 16 eps |A| |V|"); }
  } else
  for (int i = 0; i < n; i++) for (int j = 0; j < n; j++) { double av = 0, vd = 0; for (int k = 0; k < n; k++) { av += (*A)(i, k) * V(k, j); vd += V(i, k) * D(k, j); } SYM_ASSERT_EQ(av, vd, "A.V differs from V.D"); }
  double tr = 0, sr = 0; for (int i = 0; i < n; i++) { tr += (*A)(i, i); sr += re[i]; SYM_ASSERT(im[i] == 0.0, "a real spectrum is reported with an imaginary part"); SYM_ASSERT_EQ(D(i, i), re[i], "real eigenvalue list is not the diagonal of D"); }
  SYM_ASSERT_EQ(tr, sr, "trace is not the sum of the eigenvalues");
  if (n == 2) { double det = (*A)(0, 0) * (*A)(1, 1) - (*A)(0, 1) * (*A)(1, 0); SYM_ASSERT_EQ(det, re[0] * re[1], "determinant is not the product of the eigenvalues"); SYM_ASSERT(D(0, 1) == 0.0 && D(1, 0) == 0.0, "D is not diagonal for a real spectrum"); }
  if ((which <= 2 || which == 4) && n >= 2) { for (int i = 1; i < n; i++) SYM_ASSERT(re[i - 1] <= re[i], "symmetric input: eigenvalues are not ascending");
    for (int i = 0; i < n; i++) for (int j = 0; j < n; j++) { double s = 0; for (int k = 0; k < n; k++) s += V(k, i) * V(k, j); SYM_ASSERT_EQ(s, i == j ? 1.0 : 0.0, "symmetric input: V is not orthonormal"); } }
}
