// C06 (partial): eigen-decomposition on the inputs whose iteration exits at once: 1x1, symmetric 2x2 (one implicit QL sweep), 2x2 diagonal and triangular non-symmetric input (REAL mode, sqrt axiomatised).
#include "hmat.h"
#include <Bpp/Numeric/Matrix/EigenValue.h>
#include <cmath>
using namespace std;
extern "C" void verif_harness() {
  int which = __sym_choose("harness", HLO, HHI);
  int ka = anyKind("A");
  int n = which == 0 ? 1 : (which == 4 || which == 6 ? 3 : 2);
  MP A = mkMatrix(ka, n, n);
  if (which == 0) (*A)(0, 0) = symd("a00");
  else if (which == 1) { double a = symd("a"), b = symd("b"), c = symd("c"); SYM_ASSUME(!(b == 0)); (*A)(0, 0) = a; (*A)(0, 1) = b; (*A)(1, 0) = b; (*A)(1, 1) = c; }           // symmetric, coupled
  else if (which == 2) { double a = symd("a"), c = symd("c"); (*A)(0, 0) = a; (*A)(0, 1) = 0; (*A)(1, 0) = 0; (*A)(1, 1) = c; }                                                     // diagonal (symmetric path)
  else if (which == 4) { double a = symd("a"), b = symd("b"), c = symd("c"), d = symd("d"); int pos = __sym_choose("isolated", 0, 2);      // 3x3 symmetric, a coupled 2x2 block plus an isolated diagonal entry (the QL iteration splits)
    int p = pos == 0 ? 1 : 0, q = pos == 2 ? 1 : 2; for (int i = 0; i < 3; i++) for (int j = 0; j < 3; j++) (*A)(i, j) = 0; (*A)(p, p) = a; (*A)(q, q) = c; (*A)(p, q) = b; (*A)(q, p) = b; (*A)(pos, pos) = d; SYM_ASSUME(b > 0.001 || b < -0.001); }
  else if (which == 6) {   // 3x3 non-symmetric with a rational spectrum: block-triangular shapes whose Hessenberg reduction meets an already reduced column (entry (1,0) non-zero, (2,0) zero)
    // or has to eliminate (2,0); the isolated eigenvalue deflates at once and the 2x2 block is triangular, so the QR iteration exits without a sweep
    int shape = __sym_choose("shape", 0, 2); double a = symd("a"), e = symd("e"), g = symd("g"), d = symd("d"), c = symd("c"), f = symd("f");
    if (shape != 2) {   // the leading 2x2 block is concrete (two blocks are forked): with a symbolic block the reduction takes square roots of symbolic squares and no path finishes (measured); the last column and the isolated eigenvalue stay symbolic
      int blk = __sym_choose("block", 0, 1); a = blk ? -1.0 : 4.0; d = blk ? 3.0 : 4.0; e = blk ? 0.5 : 1.0; }
    for (int i = 0; i < 3; i++) for (int j = 0; j < 3; j++) (*A)(i, j) = 0; (*A)(0, 0) = a; (*A)(1, 1) = e; (*A)(2, 2) = g;
    if (shape == 0) { (*A)(1, 0) = d; (*A)(0, 2) = c; (*A)(1, 2) = f; }          // [[a,0,c],[d,e,f],[0,0,g]]
    else if (shape == 1) { (*A)(1, 0) = d; (*A)(1, 2) = f; }                     // [[a,0,0],[d,e,f],[0,0,g]]
    else { (*A)(0, 1) = d; (*A)(0, 2) = c; (*A)(1, 2) = f; }                     // upper triangular, fully symbolic
    if (shape == 2) SYM_ASSUME(d > 0.001 || d < -0.001); if (shape != 1) SYM_ASSUME(c > 0.001 || c < -0.001); SYM_ASSUME(f > 0.001 || f < -0.001);
    if (shape == 2) SYM_ASSUME(a - e > 0.01 || e - a > 0.01); SYM_ASSUME(a - g > 0.01 || g - a > 0.01); SYM_ASSUME(e - g > 0.01 || g - e > 0.01); }
  else if (which == 5) { double a = symd("a"), b = symd("b"); int lower = __sym_choose("lower", 0, 1); (*A)(0, 0) = a; (*A)(1, 1) = a; (*A)(0, 1) = lower ? 0 : b; (*A)(1, 0) = lower ? b : 0; SYM_ASSUME(b > 0.001 || b < -0.001); }   // defective: a 2x2 Jordan block (repeated eigenvalue, one eigenvector)
  else { double a = symd("a"), b = symd("b"), c = symd("c"); int lower = __sym_choose("lower", 0, 1); SYM_ASSUME(!(b == 0) && !(a == c)); (*A)(0, 0) = a; (*A)(1, 1) = c; (*A)(0, 1) = lower ? 0 : b; (*A)(1, 0) = lower ? b : 0; }   // triangular, distinct eigenvalues (non-symmetric path)
  // moderate magnitudes and a clearly non-negligible coupling: the kernels treat an off-diagonal entry below 2^-52 times the neighbouring diagonal as zero
  // (a relative-epsilon decision; the exact equations below are claimed away from that regime)
  for (int i = 0; i < n; i++) for (int j = 0; j < n; j++) { double x = (*A)(i, j); SYM_ASSUME(x >= -100 && x <= 100); if (i != j && which != 2 && which != 4 && which != 5 && which != 6 && !(which == 3 && ((*A)(i, j) == 0))) SYM_ASSUME(x > 0.001 || x < -0.001); }
#ifdef MATFUN
  if (which == 1 || (which == 3 && !((*A)(1, 0) == 0.0))) return;    // matrix functions: 1x1, diagonal and upper-triangular input (the symmetric and lower-triangular paths go through square roots; measured: no verdict)
#endif
  EigenValue<double> ev(*A);
  const RowMatrix<double>& V = ev.getV(); const RowMatrix<double>& D = ev.getD();
  vector<double> re = ev.getRealEigenValues(), im = ev.getImagEigenValues();
  SYM_ASSERT((int)V.getNumberOfRows() == n && (int)V.getNumberOfColumns() == n && (int)D.getNumberOfRows() == n && (int)re.size() == n && (int)im.size() == n, "decomposition has the wrong dimensions");
  SYM_ASSERT(ev.isSymmetric() == (which <= 2 || which == 4), "symmetry dispatch differs from A == transpose(A)");
  if (which == 5) {   // defective input: the eigenvector column is obtained by dividing by eps.|A| instead of 0, so A.V = V.D holds to a small multiple of eps.|A|.|V| (the property's tolerance), not exactly
    double nA = 0, nV = 0; for (int i = 0; i < n; i++) for (int j = 0; j < n; j++) { nA += fabs((*A)(i, j)); nV += fabs(V(i, j)); }
    for (int i = 0; i < n; i++) for (int j = 0; j < n; j++) { double av = 0, vd = 0; for (int k = 0; k < n; k++) { av += (*A)(i, k) * V(k, j); vd += V(i, k) * D(k, j); } SYM_ASSERT(fabs(av - vd) <= 16 * 2.220446049250313e-16 * nA * nV, "A.V differs from V.D by more than 16 eps |A| |V|"); }
  } else
  for (int i = 0; i < n; i++) for (int j = 0; j < n; j++) { double av = 0, vd = 0; for (int k = 0; k < n; k++) { av += (*A)(i, k) * V(k, j); vd += V(i, k) * D(k, j); } SYM_ASSERT_EQ(av, vd, "A.V differs from V.D"); }
  double tr = 0, sr = 0; for (int i = 0; i < n; i++) { tr += (*A)(i, i); sr += re[i]; SYM_ASSERT(im[i] == 0.0, "a real spectrum is reported with an imaginary part"); SYM_ASSERT_EQ(D(i, i), re[i], "real eigenvalue list is not the diagonal of D"); }
  SYM_ASSERT_EQ(tr, sr, "trace is not the sum of the eigenvalues");
  if (n == 2) { double det = (*A)(0, 0) * (*A)(1, 1) - (*A)(0, 1) * (*A)(1, 0); SYM_ASSERT_EQ(det, re[0] * re[1], "determinant is not the product of the eigenvalues"); SYM_ASSERT(D(0, 1) == 0.0 && D(1, 0) == 0.0, "D is not diagonal for a real spectrum"); }
#ifdef MATFUN
  if (which <= 3) {
    // real matrix power and matrix exponential built on the decomposition (diagonalisable input with real spectrum)
    RowMatrix<double> AA, AAA, O; MatrixTools::mult(*A, *A, AA); MatrixTools::mult(AA, *A, AAA);
    int p = __sym_choose("power", -1, 3); if (p == 0) p = -2;
    double det = n == 1 ? (*A)(0, 0) : (*A)(0, 0) * (*A)(1, 1) - (*A)(0, 1) * (*A)(1, 0); if (p < 0) SYM_ASSUME(det > 0.001 || det < -0.001);
    // nearly parallel eigenvectors make the inversion of V report singularity (ZeroDivisionException below its 1e-6 pivot threshold): accepted, nothing is returned then
    try { MatrixTools::pow(*A, (double)p, O); } catch (ZeroDivisionException&) { return; }
    SYM_ASSERT((int)O.getNumberOfRows() == n && (int)O.getNumberOfColumns() == n, "real matrix power has the wrong dimensions");
    for (int i = 0; i < n; i++) for (int j = 0; j < n; j++) {
      if (p == 1) SYM_ASSERT_EQ(O(i, j), (*A)(i, j), "pow(A, 1.0) differs from A");
      else if (p == 2) SYM_ASSERT_EQ(O(i, j), AA(i, j), "pow(A, 2.0) differs from A.A");
      else if (p == 3) SYM_ASSERT_EQ(O(i, j), AAA(i, j), "pow(A, 3.0) differs from A.A.A");
      else { const RowMatrix<double>& B = p == -1 ? static_cast<const RowMatrix<double>&>(RowMatrix<double>(*A)) : AA; double s = 0; RowMatrix<double> Bc = p == -1 ? RowMatrix<double>(*A) : AA; (void)B; for (int k = 0; k < n; k++) s += Bc(i, k) * O(k, j); SYM_ASSERT_EQ(s, i == j ? 1.0 : 0.0, "pow(A, -1.0 / -2.0) is not the inverse of A / A.A"); } }
    RowMatrix<double> X; try { MatrixTools::exp(*A, X); } catch (ZeroDivisionException&) { return; }
    SYM_ASSERT((int)X.getNumberOfRows() == n && (int)X.getNumberOfColumns() == n, "matrix exponential has the wrong dimensions");
    if (which == 0) SYM_ASSERT_EQ(X(0, 0), exp((*A)(0, 0)), "exp of a 1x1 matrix is not exp of its entry");
    else if (which == 2) { SYM_ASSERT_EQ(X(0, 0), exp((*A)(0, 0)), "exp of a diagonal matrix: wrong diagonal entry"); SYM_ASSERT_EQ(X(1, 1), exp((*A)(1, 1)), "exp of a diagonal matrix: wrong diagonal entry"); SYM_ASSERT(X(0, 1) == 0.0 && X(1, 0) == 0.0, "exp of a diagonal matrix is not diagonal"); }
    else if (which == 3) { double a = (*A)(0, 0), c = (*A)(1, 1), b = (*A)(0, 1) + (*A)(1, 0);    // triangular with distinct eigenvalues: the power series sums to b (e^a - e^c)/(a - c) off the diagonal
      SYM_ASSERT_EQ(X(0, 0), exp(a), "exp of a triangular matrix: wrong diagonal entry"); SYM_ASSERT_EQ(X(1, 1), exp(c), "exp of a triangular matrix: wrong diagonal entry");
      SYM_ASSERT_EQ(X(0, 1) + X(1, 0), b * (exp(a) - exp(c)) / (a - c), "exp of a triangular matrix: off-diagonal entry differs from the sum of the power series"); SYM_ASSERT(((*A)(0, 1) == 0.0 ? X(0, 1) : X(1, 0)) == 0.0, "exp of a triangular matrix is not triangular"); }
    // spectral mapping with the (separately checked) eigenpairs, and commutation with A
    for (int i = 0; i < n; i++) for (int j = 0; j < n; j++) { double xv = 0, ve = 0, ax = 0, xa = 0; for (int k = 0; k < n; k++) { xv += X(i, k) * V(k, j); ax += (*A)(i, k) * X(k, j); xa += X(i, k) * (*A)(k, j); } ve = V(i, j) * exp(re[j]);
      SYM_ASSERT_EQ(xv, ve, "exp(A).V differs from V.exp(D)"); SYM_ASSERT_EQ(ax, xa, "exp(A) does not commute with A"); }
  }
#endif
  if ((which <= 2 || which == 4) && n >= 2) { for (int i = 1; i < n; i++) SYM_ASSERT(re[i - 1] <= re[i], "symmetric input: eigenvalues are not ascending");
    for (int i = 0; i < n; i++) for (int j = 0; j < n; j++) { double s = 0; for (int k = 0; k < n; k++) s += V(k, i) * V(k, j); SYM_ASSERT_EQ(s, i == j ? 1.0 : 0.0, "symmetric input: V is not orthonormal"); } }
}
