// C12: numerical derivatives are transparent and exact on low-degree polynomials (REAL mode).
#include <Bpp/Numeric/Function/TwoPointsNumericalDerivative.h>
#include <Bpp/Numeric/Function/ThreePointsNumericalDerivative.h>
#include <Bpp/Numeric/Function/FivePointsNumericalDerivative.h>
#include <Bpp/Numeric/Function/Functions.h>
#include <Bpp/Numeric/AbstractParametrizable.h>
#include <Bpp/Numeric/Constraints.h>
#include "symrt.h"
#include <memory>
using namespace bpp;
using namespace std;
#ifndef DEGMAX
#define DEGMAX 4
#endif

// wrapped function of (x, y): either a polynomial with symbolic coefficients (degree <= deg) or an uninterpreted function (deg < 0)
class Fn : public virtual SecondOrderDerivable, public AbstractParametrizable {
public:
  int deg; double c[6][6]; bool analytic; mutable int evals = 0;
  Fn(int d, bool an) : AbstractParametrizable(""), deg(d), analytic(an) { for (int i = 0; i < 6; i++) for (int j = 0; j < 6; j++) c[i][j] = 0; for (int i = 0; i <= d; i++) for (int j = 0; i + j <= d; j++) { c[i][j] = symd("c" + to_string(i) + to_string(j)); SYM_ASSUME(c[i][j] >= -10 && c[i][j] <= 10); } }   // ordinary magnitudes: the schemes treat |f| >= 1.7e23 as 'undefined' 
  Fn* clone() const override { return new Fn(*this); }
  void add(Parameter* p) { addParameter_(p); }
  void setParameters(const ParameterList& pl) override { matchParametersValues(pl); }
  double X() const { return getParameterValue("x"); } double Y() const { return getParameterValue("y"); }
  static double pw(double b, int k) { double r = 1; for (int i = 0; i < k; i++) r *= b; return r; }
  double poly(double x, double y, int dx, int dy) const { double s = 0; for (int i = dx; i <= deg; i++) for (int j = dy; i + j <= deg; j++) { double k = 1; for (int t = 0; t < dx; t++) k *= (i - t); for (int t = 0; t < dy; t++) k *= (j - t); s += k * c[i][j] * pw(x, i - dx) * pw(y, j - dy); } return s; }
  double getValue() const override { evals++; double v = deg >= 0 ? poly(X(), Y(), 0, 0) : __sym_apply2("f", X(), Y()); SYM_ASSUME(v > -1e6 && v < 1e6); return v; }   // ordinary magnitudes: the schemes treat |f| >= 1.7e23 as 'undefined' 
  // the wrappers switch the analytic derivatives off while they probe: a derivative requested while its computation is switched off is recorded (a real function would not have it)
  bool en1 = true, en2 = true; mutable bool askedWhileOff = false;
  void enableFirstOrderDerivatives(bool b) override { en1 = b; } bool enableFirstOrderDerivatives() const override { return en1; }
  void enableSecondOrderDerivatives(bool b) override { en2 = b; } bool enableSecondOrderDerivatives() const override { return en2; }
  double getFirstOrderDerivative(const string& v) const override { if (!en1) askedWhileOff = true; if (deg < 0) return __sym_apply2(("df_" + v).c_str(), X(), Y()); return v == "x" ? poly(X(), Y(), 1, 0) : poly(X(), Y(), 0, 1); }
  double getSecondOrderDerivative(const string& v) const override { if (!en2) askedWhileOff = true; if (deg < 0) return __sym_apply2(("d2f_" + v).c_str(), X(), Y()); return v == "x" ? poly(X(), Y(), 2, 0) : poly(X(), Y(), 0, 2); }
  double getSecondOrderDerivative(const string& v, const string& w) const override { if (deg < 0) return __sym_apply2(("d2f_" + v + w).c_str(), X(), Y()); if (v == w) return getSecondOrderDerivative(v); return poly(X(), Y(), 1, 1); }
};
struct Box { bool has; double l, u; };
static shared_ptr<Fn> mkFn(int deg, Box bx, Box by, double x0, double y0) {
  auto f = make_shared<Fn>(deg, true);
  f->add(bx.has ? new Parameter("x", x0, make_shared<IntervalConstraint>(bx.l, bx.u, true, true)) : new Parameter("x", x0));
  f->add(by.has ? new Parameter("y", y0, make_shared<IntervalConstraint>(by.l, by.u, true, true)) : new Parameter("y", y0));
  return f;
}
static Box anyBox(const string& tag, int allow) { Box b; b.has = allow && __sym_choose((tag + ".constrained").c_str(), 0, 1); b.l = b.u = 0; if (b.has) { b.l = symd(tag + ".lo"); b.u = symd(tag + ".hi"); SYM_ASSUME(b.u - b.l >= 2 && b.l >= -10 && b.u <= 10); } return b; }
static double anyIn(const string& n, const Box& b) { double v = symd(n); SYM_ASSUME(v >= -10 && v <= 10 && !(v == 0)); if (b.has) SYM_ASSUME(v >= b.l && v <= b.u); return v; }
static unique_ptr<AbstractNumericalDerivative> mkScheme(int s, shared_ptr<Fn> f) {
  shared_ptr<SecondOrderDerivable> g = f; shared_ptr<FirstOrderDerivable> g1 = f;
  if (s == 0) return unique_ptr<AbstractNumericalDerivative>(new TwoPointsNumericalDerivative(g1));
  if (s == 1) return unique_ptr<AbstractNumericalDerivative>(new ThreePointsNumericalDerivative(g));
  return unique_ptr<AbstractNumericalDerivative>(new FivePointsNumericalDerivative(g));
}
static vector<string> selection(int k) { if (k == 0) return {"x"}; if (k == 1) return {"y"}; if (k == 2) return {"x", "y"}; return {"y", "x"}; }

// three-variable polynomial (total degree <= 3, symbolic coefficients) for the cross-derivative job: with three variables the stencil of one pair must be
// evaluated with the third variable at its requested value
class Fn3 : public virtual SecondOrderDerivable, public AbstractParametrizable {
public:
  double c[4][4][4];
  Fn3() : AbstractParametrizable("") { for (int i = 0; i < 4; i++) for (int j = 0; j < 4; j++) for (int k = 0; k < 4; k++) { c[i][j][k] = 0; if (i + j + k <= 3) { c[i][j][k] = symd("c" + to_string(i) + to_string(j) + to_string(k)); SYM_ASSUME(c[i][j][k] >= -10 && c[i][j][k] <= 10); } }
    addParameter_(new Parameter("x", 1.0)); addParameter_(new Parameter("y", 1.0)); addParameter_(new Parameter("z", 1.0)); }
  Fn3* clone() const override { return new Fn3(*this); }
  void setParameters(const ParameterList& pl) override { matchParametersValues(pl); }
  static double pw(double b, int k) { double r = 1; for (int i = 0; i < k; i++) r *= b; return r; }
  double poly(double x, double y, double z, int dx, int dy, int dz) const { double s = 0; for (int i = dx; i <= 3; i++) for (int j = dy; i + j <= 3; j++) for (int k = dz; i + j + k <= 3; k++) { double f = 1; for (int t = 0; t < dx; t++) f *= (i - t); for (int t = 0; t < dy; t++) f *= (j - t); for (int t = 0; t < dz; t++) f *= (k - t); s += f * c[i][j][k] * pw(x, i - dx) * pw(y, j - dy) * pw(z, k - dz); } return s; }
  double getValue() const override { double v = poly(getParameterValue("x"), getParameterValue("y"), getParameterValue("z"), 0, 0, 0); SYM_ASSUME(v > -1e6 && v < 1e6); return v; }
  void enableFirstOrderDerivatives(bool) override {} bool enableFirstOrderDerivatives() const override { return true; }
  void enableSecondOrderDerivatives(bool) override {} bool enableSecondOrderDerivatives() const override { return true; }
  double getFirstOrderDerivative(const string&) const override { return 0; } double getSecondOrderDerivative(const string&) const override { return 0; } double getSecondOrderDerivative(const string&, const string&) const override { return 0; }
};

extern "C" void verif_harness() {
  int which = __sym_choose("harness", HLO, HHI);
  int scheme = __sym_choose("scheme", 0, 2);
  // step: forked over three concrete dyadic sizes (a symbolic step makes every probe position a product of two unknowns and the path conditions leave the solver's reach: measured)
  static const double HS[3] = {0.0078125, 0.00006103515625, 9.5367431640625e-07};
  double h = HS[__sym_choose("step", 0, 2)];
  if (which == 0) {
    // ---- transparency: whatever the probes did, the wrapped function ends exactly at the requested values, and the wrapper reports f there ----
    Box bx = anyBox("x", 1), by = anyBox("y", 1);
    double x0 = anyIn("x0", bx), y0 = anyIn("y0", by), x1 = anyIn("x1", bx), y1 = anyIn("y1", by);
    auto f = mkFn(-1, bx, by, x0, y0);
    auto nd = mkScheme(scheme, f); nd->setInterval(h);
    int sel = __sym_choose("selected", 0, 3); nd->setParametersToDerivate(selection(sel));
    int cross = scheme == 1 ? __sym_choose("cross", 0, 1) : 0; if (cross) dynamic_cast<ThreePointsNumericalDerivative&>(*nd).enableSecondOrderCrossDerivatives(true);
    int entry = __sym_choose("entry", 0, 5);     // 0 setParameters 1 setAllParametersValues 2 setParameterValue 3 setParametersValues 4 matchParametersValues 5 f()
    int both = (entry == 1) ? 1 : __sym_choose("listHasBoth", 0, 1);
    ParameterList pl; pl.addParameter(Parameter("x", x1)); if (both) pl.addParameter(Parameter("y", y1));
    double wantY = both ? y1 : y0, val = 0; bool viaF = false;
    try {
    switch (entry) { case 0: nd->setParameters(pl); break; case 1: nd->setAllParametersValues(pl); break; case 2: nd->setParameterValue("x", x1); wantY = y0; break; case 3: nd->setParametersValues(pl); break; case 4: nd->matchParametersValues(pl); break; default: val = nd->f(pl); viaF = true; }
    } catch (ConstraintException&) { throw; } catch (Exception&) { if (cross && (bx.has || by.has)) return; throw; }   // the three-point scheme documents that cross derivatives at a constraint limit raise: outside the claim
    SYM_ASSERT(f->getParameterValue("x") == x1, "wrapped function is not left at the requested value of x"); SYM_ASSERT(f->getParameterValue("y") == wantY, "wrapped function is not left at the requested value of y");
    SYM_ASSERT(nd->getParameterValue("x") == x1 && nd->getParameterValue("y") == wantY, "wrapper reports other parameter values than requested");
    double want = __sym_apply2("f", x1, wantY);
    SYM_ASSERT_EQ(nd->getValue(), want, "wrapper does not report the function's value at the requested point"); if (viaF) SYM_ASSERT_EQ(val, want, "f() does not return the function's value at the requested point");
  } else if (which == 1) {
    // ---- exactness away from constraints: polynomial of the degree the scheme differentiates exactly ----
    int what = __sym_choose("derivative", 0, scheme == 1 ? 2 : (scheme == 2 ? 1 : 0));     // 0 first, 1 second, 2 cross (three-point only)
    int deg = scheme == 0 ? 1 : (scheme == 1 ? (what == 0 ? 2 : 3) : (what == 0 ? 4 : 5));
    if (deg > DEGMAX) deg = DEGMAX;
    Box none{false, 0, 0}; double x1 = anyIn("x1", none), y1 = anyIn("y1", none);
    auto f = mkFn(deg, none, none, 1.0, 1.0);
    auto nd = mkScheme(scheme, f); nd->setInterval(h);
    int sel = __sym_choose("selected", 2, 3); nd->setParametersToDerivate(selection(sel));
    if (what == 2) dynamic_cast<ThreePointsNumericalDerivative&>(*nd).enableSecondOrderCrossDerivatives(true);
    ParameterList pl; pl.addParameter(Parameter("x", x1)); pl.addParameter(Parameter("y", y1)); nd->setParameters(pl);
    if (what == 0) { SYM_ASSERT_EQ(nd->getFirstOrderDerivative("x"), f->poly(x1, y1, 1, 0), "numerical first derivative in x differs from the analytic one"); SYM_ASSERT_EQ(nd->getFirstOrderDerivative("y"), f->poly(x1, y1, 0, 1), "numerical first derivative in y differs from the analytic one"); }
    else if (what == 1) { SYM_ASSERT_EQ(nd->getSecondOrderDerivative("x"), f->poly(x1, y1, 2, 0), "numerical second derivative in x differs from the analytic one"); SYM_ASSERT_EQ(nd->getSecondOrderDerivative("y"), f->poly(x1, y1, 0, 2), "numerical second derivative in y differs from the analytic one"); }
    else { SYM_ASSERT_EQ(nd->getSecondOrderDerivative("x", "y"), f->poly(x1, y1, 1, 1), "numerical cross derivative differs from the analytic one"); SYM_ASSERT_EQ(nd->getSecondOrderDerivative("y", "x"), f->poly(x1, y1, 1, 1), "numerical cross derivative (y,x) differs from the analytic one");
      SYM_ASSERT_EQ(nd->getSecondOrderDerivative("x", "x"), f->poly(x1, y1, 2, 0), "cross derivative (x,x) differs from the second derivative"); }
    SYM_ASSERT(f->getParameterValue("x") == x1 && f->getParameterValue("y") == y1, "wrapped function is not left at the requested point after computing derivatives");
  } else if (which == 2) {
    // ---- next to a constraint: one-sided probes, no exception, still exact on lower-degree polynomials ----
    if (scheme == 0) scheme = 1;
    int side = __sym_choose("side", 0, 1);
    Box bx{true, symd("x.lo"), symd("x.hi")}; SYM_ASSUME(bx.u - bx.l >= 2 && bx.l >= -10 && bx.u <= 10); Box none{false, 0, 0};
    double x1 = symd("x1"), y1 = anyIn("y1", none); SYM_ASSUME(!(x1 == 0));
    // the point is on the bound or closer to it than one probe step, so at least the outer probe on that side is rejected
    if (side == 0) SYM_ASSUME(x1 >= bx.l && x1 - bx.l < h); else SYM_ASSUME(x1 <= bx.u && bx.u - x1 < h);
    int what = __sym_choose("derivative", 0, 1); int deg = what == 0 ? 1 : 2;
    auto f = mkFn(deg, bx, none, (bx.l + bx.u) / 2, 1.0);
    auto nd = mkScheme(scheme, f); nd->setInterval(h); nd->setParametersToDerivate(selection(__sym_choose("selected", 2, 3)));
    ParameterList pl; pl.addParameter(Parameter("x", x1)); pl.addParameter(Parameter("y", y1));
    bool raised = false; try { nd->setParameters(pl); } catch (Exception&) { raised = true; }
    SYM_ASSERT(!raised, "numerical derivative raised next to a constraint instead of using one-sided probes");
    if (what == 0) SYM_ASSERT_EQ(nd->getFirstOrderDerivative("x"), f->poly(x1, y1, 1, 0), "one-sided first derivative differs from the analytic one on a linear function");
    else SYM_ASSERT_EQ(nd->getSecondOrderDerivative("x"), f->poly(x1, y1, 2, 0), "one-sided second derivative differs from the analytic one on a quadratic");
    SYM_ASSERT(f->getParameterValue("x") == x1 && f->getParameterValue("y") == y1, "wrapped function is not left at the requested point next to a constraint");
  } else if (which == 5) {
    // ---- partial update: a full update at (x1,y1), then y alone is changed through one of the entry points; derivatives must be those at the current point (x1,y2) ----
    int deg = scheme == 0 ? 1 : (scheme == 1 ? 2 : 3); if (scheme == 0) deg = 2;   /* the two-point scheme is exact on x.y although not on squares: the polynomial below has no pure squares for it */
    Box none{false, 0, 0}; double x1 = anyIn("x1", none), y1 = anyIn("y1", none), y2 = anyIn("y2", none); SYM_ASSUME(!(y2 == y1) && !(x1 == 1) && !(y1 == 1));
    auto f = mkFn(deg, none, none, 1.0, 1.0); if (scheme == 0) { f->c[2][0] = 0; f->c[0][2] = 0; }
    auto nd = mkScheme(scheme, f); nd->setInterval(h); nd->setParametersToDerivate(selection(__sym_choose("selected", 2, 3)));
    ParameterList pl; pl.addParameter(Parameter("x", x1)); pl.addParameter(Parameter("y", y1)); nd->setParameters(pl);
    int how = __sym_choose("entry", 0, 2); ParameterList one; one.addParameter(Parameter("y", y2));
    if (how == 0) nd->setParameterValue("y", y2); else if (how == 1) nd->matchParametersValues(one); else nd->setParametersValues(one);
    SYM_ASSERT(f->getParameterValue("x") == x1 && f->getParameterValue("y") == y2, "wrapped function is not left at the requested point after a partial update");
    SYM_ASSERT_EQ(nd->getValue(), f->poly(x1, y2, 0, 0), "wrapper does not report the value at the current point after a partial update");
    SYM_ASSERT_EQ(nd->getFirstOrderDerivative("y"), f->poly(x1, y2, 0, 1), "derivative in the updated variable is not that of the current point");
    SYM_ASSERT_EQ(nd->getFirstOrderDerivative("x"), f->poly(x1, y2, 1, 0), "after a partial update the derivative in a variable that was not part of the update is stale (that of the previous point)");
  } else if (which == 4) {
    // ---- three variables: every cross derivative exact on cubic polynomials, first/second derivatives still exact, function left at the requested point ----
    if (scheme != 1) return;
    auto f = make_shared<Fn3>(); shared_ptr<SecondOrderDerivable> g = f; ThreePointsNumericalDerivative nd(g); nd.setInterval(h);
    static const char* ORD[3][3] = {{"x", "y", "z"}, {"z", "x", "y"}, {"y", "z", "x"}}; int o = __sym_choose("order", 0, 2); nd.setParametersToDerivate({ORD[o][0], ORD[o][1], ORD[o][2]}); nd.enableSecondOrderCrossDerivatives(true);
    double x = symd("x1"), y = symd("y1"), z = symd("z1"); SYM_ASSUME(x >= -10 && x <= 10 && y >= -10 && y <= 10 && z >= -10 && z <= 10 && !(x == 0) && !(y == 0) && !(z == 0) && !(x == 1) && !(y == 1) && !(z == 1));
    ParameterList pl; pl.addParameter(Parameter("x", x)); pl.addParameter(Parameter("y", y)); pl.addParameter(Parameter("z", z)); nd.setParameters(pl);
    SYM_ASSERT_EQ(nd.getSecondOrderDerivative("x", "y"), f->poly(x, y, z, 1, 1, 0), "cross derivative (x,y) differs from the analytic one with three variables"); SYM_ASSERT_EQ(nd.getSecondOrderDerivative("x", "z"), f->poly(x, y, z, 1, 0, 1), "cross derivative (x,z) differs from the analytic one with three variables");
    SYM_ASSERT_EQ(nd.getSecondOrderDerivative("y", "z"), f->poly(x, y, z, 0, 1, 1), "cross derivative (y,z) differs from the analytic one with three variables"); SYM_ASSERT_EQ(nd.getSecondOrderDerivative("z", "y"), f->poly(x, y, z, 0, 1, 1), "cross derivative (z,y) differs from the analytic one with three variables");
    SYM_ASSERT_EQ(nd.getSecondOrderDerivative("y"), f->poly(x, y, z, 0, 2, 0), "second derivative in y differs with three variables");
    SYM_ASSERT(f->getParameterValue("x") == x && f->getParameterValue("y") == y && f->getParameterValue("z") == z, "wrapped function is not left at the requested point (three variables, cross derivatives on)");
  } else {
    // ---- delegation: derivatives for variables that were not selected come from the wrapped function ----
    Box none{false, 0, 0}; double x1 = anyIn("x1", none), y1 = anyIn("y1", none);
    auto f = mkFn(-1, none, none, 1.0, 1.0);
    auto nd = mkScheme(scheme, f); nd->setInterval(h);
    int sel = __sym_choose("selected", 0, 1); string other = sel == 0 ? "y" : "x";
    // the selection may replace an earlier one that contained the now unselected variable
    int earlier = __sym_choose("earlierSelection", 0, 3); if (earlier == 1) nd->setParametersToDerivate(selection(1 - sel)); else if (earlier >= 2) nd->setParametersToDerivate(selection(earlier));
    if (earlier && __sym_choose("updateBetween", 0, 1)) { ParameterList p0; p0.addParameter(Parameter("x", anyIn("x0", none))); p0.addParameter(Parameter("y", anyIn("y0", none))); nd->setParameters(p0); }
    nd->setParametersToDerivate(selection(sel));
    ParameterList pl; pl.addParameter(Parameter("x", x1)); pl.addParameter(Parameter("y", y1)); nd->setParameters(pl);
    // optionally a further update that contains the unselected variable only
    int then = __sym_choose("then", 0, 3); double xc = x1, yc = y1;
    if (then) { double w = anyIn("w", none); SYM_ASSUME(!(w == (other == "x" ? x1 : y1))); ParameterList one; one.addParameter(Parameter(other, w));
      if (then == 1) nd->setParameterValue(other, w); else if (then == 2) nd->matchParametersValues(one); else nd->setParametersValues(one); (other == "x" ? xc : yc) = w; }
    SYM_ASSERT(f->getParameterValue("x") == xc && f->getParameterValue("y") == yc, "wrapped function is not left at the requested point");
    SYM_ASSERT(f->en1, "the wrapped function's first derivatives are left switched off after an update");
    SYM_ASSERT_EQ(nd->getFirstOrderDerivative(other), __sym_apply2(("df_" + other).c_str(), xc, yc), "first derivative for a variable that was not selected is not delegated to the wrapped function");
    if (scheme != 0) {   // (the two-point wrapper holds its function as first-order derivable only)
      SYM_ASSERT(f->en2, "the wrapped function's second derivatives are left switched off after an update");
      SYM_ASSERT_EQ(nd->getSecondOrderDerivative(other), __sym_apply2(("d2f_" + other).c_str(), xc, yc), "second derivative for a variable that was not selected is not delegated");
      if (scheme == 1) SYM_ASSERT_EQ(nd->getSecondOrderDerivative("x", "y"), __sym_apply2("d2f_xy", xc, yc), "cross derivative is not delegated when cross-derivatives are not computed"); }   // (the five-point scheme documents cross derivatives as unimplemented)
    SYM_ASSERT(!f->askedWhileOff, "a delegated derivative was requested while the wrapped function's derivative computation was switched off");
  }
}
