// C01: a constrained parameter never holds a value its constraint rejects.
// Symbolic: bounds, values, test points (reals; +-inf bounds as forked concrete choices; FP mode: all doubles).
#include <Bpp/Numeric/Parameter.h>
#include <Bpp/Numeric/AutoParameter.h>
#include <Bpp/Numeric/Constraints.h>
#include <Bpp/Numeric/ParameterList.h>
#include <Bpp/Numeric/AbstractParametrizable.h>
#include <Bpp/Numeric/NumConstants.h>
#include "symrt.h"
#include <limits>
using namespace bpp;
using namespace std;

#ifndef NSTEPS
#define NSTEPS 2
#endif
#ifndef OPMAX
#define OPMAX 4   // history calls 0..OPMAX: setValue, setConstraint, removeConstraint, copy+assign back, assign from another parameter
#endif
static const double INF = std::numeric_limits<double>::infinity();

// membership specification, written independently of the implementation
static bool spec(double l, double u, bool il, bool iu, double v) {
  bool lo = il ? (v >= l) : (v > l);
  bool hi = iu ? (v <= u) : (v < u);
  return lo && hi;
}
// closed form of "no real is accepted" (its equivalence with the quantified statement is discharged
// separately by the solver, see props/C01.py: job spec-emptiness)
static bool specEmpty(double l, double u, bool il, bool iu) { return (l > u) || (l == u && !(il && iu)); }

struct Itv { double l, u; bool il, iu; };
// an arbitrary interval: each bound is a symbolic real or (forked) infinite
static Itv anyInterval(const string& tag, bool allowInf = true) {
  Itv r;
  r.il = __sym_choose((tag + ".inclLower").c_str(), 0, 1);
  r.iu = __sym_choose((tag + ".inclUpper").c_str(), 0, 1);
  int shape = allowInf ? __sym_choose((tag + ".shape").c_str(), 0, 3) : 0;   // 0 finite/finite 1 -inf/finite 2 finite/+inf 3 -inf/+inf
#ifdef FPMODE
  shape = 0;  // in FP mode the symbolic doubles range over +-inf themselves
#endif
  r.l = (shape == 1 || shape == 3) ? -INF : symd(tag + ".l");
  r.u = (shape == 2 || shape == 3) ? INF : symd(tag + ".u");
#ifdef FPMODE
  SYM_ASSUME(r.l == r.l && r.u == r.u);   // bounds are not NaN
#endif
  return r;
}
static shared_ptr<IntervalConstraint> mk(const Itv& i) { return make_shared<IntervalConstraint>(i.l, i.u, i.il, i.iu); }

class Owner : public AbstractParametrizable {
public:
  Owner() : AbstractParametrizable("") {}
  Owner* clone() const override { return new Owner(*this); }
  void add(Parameter* p) { addParameter_(p); }
};

// a precision: zero (the default) or any positive real
static double nonneg(const string& n) { double v = symd(n); SYM_ASSUME(v >= 0); return v; }
static double anyValue(const string& n) {
  double v = symd(n);
#ifdef FPMODE
  SYM_ASSUME(v == v);
#endif
  return v;
}

extern "C" void verif_harness() {
  int which = __sym_choose("harness", HLO, HHI);
  switch (which) {
  case 0: {   // interval membership, includes, emptiness, limits
    Itv i = anyInterval("c"); auto c = mk(i); double v = anyValue("v");
    SYM_ASSERT(c->isCorrect(v) == spec(i.l, i.u, i.il, i.iu, v), "isCorrect differs from interval membership");
    SYM_ASSERT(c->isEmpty() == specEmpty(i.l, i.u, i.il, i.iu), "isEmpty differs from 'no real accepted'");
    double w = anyValue("w");
    if (v <= w) SYM_ASSERT(c->includes(v, w) == (spec(i.l, i.u, i.il, i.iu, v) && spec(i.l, i.u, i.il, i.iu, w)), "includes(min,max) differs from membership of both ends");
    double lim = c->getLimit(v);
    if (spec(i.l, i.u, i.il, i.iu, v)) { SYM_ASSERT(lim == v, "getLimit moves an accepted value"); SYM_ASSERT(c->getAcceptedLimit(v) == v, "getAcceptedLimit moves an accepted value"); }
    else if (!specEmpty(i.l, i.u, i.il, i.iu)) SYM_ASSERT(lim == (v <= i.l ? i.l : i.u), "getLimit is not the violated bound");
    break; }
  case 1: {   // intersection (both forms): accepts exactly what both accept
    Itv a = anyInterval("a"), b = anyInterval("b"); auto ca = mk(a), cb = mk(b); double v = anyValue("v");
    bool both = spec(a.l, a.u, a.il, a.iu, v) && spec(b.l, b.u, b.il, b.iu, v);
    unique_ptr<ConstraintInterface> r(*ca & *cb);
    SYM_ASSERT(r != nullptr, "intersection of two intervals is null");
    SYM_ASSERT(r->isCorrect(v) == both, "operator& : membership differs from conjunction");
    IntervalConstraint m(*ca); m &= *cb;
    SYM_ASSERT(m.isCorrect(v) == both, "operator&= : membership differs from conjunction");
    break; }
  case 2: {   // construction
    Itv i = anyInterval("c"); auto c = mk(i); double v = anyValue("v");
    bool threw = false;
    try {
      Parameter p("x", v, c);
      SYM_ASSERT(spec(i.l, i.u, i.il, i.iu, p.getValue()), "constructor: parameter holds a value its constraint rejects");
      SYM_ASSERT(p.getValue() == v, "constructor: stored value differs from requested");
      Parameter q(p);
      SYM_ASSERT(q.getValue() == v && q.hasConstraint() && spec(i.l, i.u, i.il, i.iu, q.getValue()), "copy: differs");
    } catch (ConstraintException&) { threw = true; }
    if (threw) SYM_ASSERT(!spec(i.l, i.u, i.il, i.iu, v), "constructor raised for an accepted value");
    break; }
  case 3: {   // one step from an arbitrary valid state: setValue / setConstraint / removeConstraint / assign / list- and owner-level set
    Itv i = anyInterval("c"); double v0 = anyValue("v0");
    SYM_ASSUME(spec(i.l, i.u, i.il, i.iu, v0));
    auto c = mk(i);
    Parameter p("x", 1.0);            // state built without relying on the constructor check
    p.setValue(v0); p.setConstraint(c);
    // precision: requests closer than precision/2 to the current value are ignored (documented); any real >= 0 (0 is the default)
    double pr = nonneg("precision"); p.setPrecision(pr);
    SYM_ASSERT(p.getValue() == v0 && p.hasConstraint() && p.getPrecision() == pr, "state construction");
    int op = __sym_choose("op", 0, 6);
    double v = anyValue("v");
    bool ignored = (v - v0 <= pr / 2) && (v0 - v <= pr / 2);
    bool threw = false;
    if (op == 0) {
      try { p.setValue(v); } catch (ConstraintException&) { threw = true; }
      if (threw) SYM_ASSERT(p.getValue() == v0 && !spec(i.l, i.u, i.il, i.iu, v) && !ignored, "setValue: raise must leave the value and only happen for rejected values");
      else if (ignored) SYM_ASSERT(p.getValue() == v0, "setValue: a request within half the precision changed the value");
      else SYM_ASSERT(p.getValue() == v, "setValue: accepted but not stored");
      SYM_ASSERT(p.getConstraint().get() == c.get(), "setValue changed the constraint");
    } else if (op == 1) {
      Itv j = anyInterval("d"); auto d = mk(j);
      try { p.setConstraint(d); } catch (ConstraintException&) { threw = true; }
      if (threw) { SYM_ASSERT(p.getConstraint().get() == c.get() && p.getValue() == v0, "setConstraint: raise must leave value and constraint"); SYM_ASSERT(!spec(j.l, j.u, j.il, j.iu, v0), "setConstraint raised although the value is accepted"); }
      else { SYM_ASSERT(p.getConstraint().get() == d.get() && p.getValue() == v0, "setConstraint: not installed"); SYM_ASSERT(spec(j.l, j.u, j.il, j.iu, v0), "setConstraint installed a constraint rejecting the value"); }
    } else if (op == 2) {
      auto old = p.removeConstraint();
      SYM_ASSERT(old.get() == c.get() && !p.hasConstraint() && p.getValue() == v0, "removeConstraint");
      p.setValue(v);
      SYM_ASSERT(p.getValue() == (ignored ? v0 : v), "unconstrained setValue");
    } else if (op == 3) {
      Itv j = anyInterval("d"); double w = anyValue("w"); SYM_ASSUME(spec(j.l, j.u, j.il, j.iu, w));
      Parameter q("y", 1.0); q.setValue(w); q.setConstraint(mk(j)); double pr2 = nonneg("precision2"); q.setPrecision(pr2);
      p = q;
      SYM_ASSERT(p.getValue() == w && spec(j.l, j.u, j.il, j.iu, p.getValue()) && p.getConstraint()->isCorrect(p.getValue()), "assignment");
      SYM_ASSERT(p.getPrecision() == pr2 && p.getName() == "y", "assignment: name or precision not taken over");
      Parameter r(p); SYM_ASSERT(r.getValue() == w && r.getConstraint()->isCorrect(r.getValue()) && r.getPrecision() == pr2, "copy of the assigned parameter");
    } else if (op == 4 || op == 5) {   // list-level updates
      ParameterList pl; pl.addParameter(p);
      bool hadAll = true;
      try {
        if (op == 4) pl.setParameterValue("x", v);
        else { ParameterList src; src.addParameter(Parameter("x", 1.0)); src[0].setValue(v); pl.setParametersValues(src); }
      } catch (ConstraintException&) { threw = true; }
      const Parameter& r = pl.parameter("x");
      SYM_ASSERT(spec(i.l, i.u, i.il, i.iu, r.getValue()), "list-level update: parameter holds a rejected value");
      // (the bulk form validates every request before writing, so it may also refuse a rejected value that the single-value form would have ignored as within the precision)
      if (threw) SYM_ASSERT(r.getValue() == v0 && !spec(i.l, i.u, i.il, i.iu, v) && (op == 5 || !ignored), "list-level update: raise must leave the value");
      else if (ignored) SYM_ASSERT(r.getValue() == v0, "list-level update: a request within half the precision changed the value");
      else SYM_ASSERT(r.getValue() == v, "list-level update: accepted but not stored");
      (void)hadAll;
    } else {   // owner-level update
      Owner o; o.add(p.clone());
      try { o.setParameterValue("x", v); } catch (ConstraintException&) { threw = true; }
      double rv = o.getParameterValue("x");
      SYM_ASSERT(spec(i.l, i.u, i.il, i.iu, rv), "owner-level update: parameter holds a rejected value");
      if (threw) SYM_ASSERT(rv == v0 && !spec(i.l, i.u, i.il, i.iu, v) && !ignored, "owner-level update: raise must leave the value");
      else if (ignored) SYM_ASSERT(rv == v0, "owner-level update: a request within half the precision changed the value");
      else SYM_ASSERT(rv == v, "owner-level update: accepted but not stored");
    }
    SYM_ASSERT(!p.hasConstraint() || p.getConstraint()->isCorrect(p.getValue()), "invariant broken after the step");
    break; }
  case 4: {   // histories of NSTEPS calls starting at construction (any precision), including calls that raise
    Itv i = anyInterval("c", false); double v = anyValue("v");
    shared_ptr<IntervalConstraint> cur = mk(i);
    Itv curI = i; bool has = true;
    Parameter* p = nullptr;
    double pr = nonneg("precision");
    try { p = new Parameter("x", v, cur, pr); } catch (ConstraintException&) { SYM_ASSERT(!spec(i.l, i.u, i.il, i.iu, v), "constructor raised for accepted value"); break; }
    double cv = v;
    for (int step = 0; step < NSTEPS; step++) {
      int op = __sym_choose(("op" + to_string(step)).c_str(), 0, OPMAX);
      string s = to_string(step);
      if (op == 0) { double w = anyValue("w" + s); bool t = false; try { p->setValue(w); } catch (ConstraintException&) { t = true; }
        bool ignored = (w - cv <= pr / 2) && (cv - w <= pr / 2);    // requests within half the precision of the current value are ignored
        if (t) SYM_ASSERT(has && !ignored && !spec(curI.l, curI.u, curI.il, curI.iu, w), "setValue raised for an accepted value"); else if (!ignored) cv = w; }
      else if (op == 4) {   // assignment from another constrained parameter with its own value, constraint and precision
        Itv j = anyInterval("e" + s, false); double w = anyValue("y" + s); SYM_ASSUME(spec(j.l, j.u, j.il, j.iu, w)); auto e = mk(j); double pr2 = nonneg("precision" + s);
        Parameter q("y", w, e, pr2); *p = q; cv = w; cur = e; curI = j; has = true; pr = pr2; }
      else if (op == 1) { Itv j = anyInterval("d" + s, false); auto d = mk(j); bool t = false; try { p->setConstraint(d); } catch (ConstraintException&) { t = true; }
        if (!t) { cur = d; curI = j; has = true; } else SYM_ASSERT(!spec(j.l, j.u, j.il, j.iu, cv), "setConstraint raised although value accepted"); }
      else if (op == 2) { p->removeConstraint(); has = false; }
      else { Parameter q(*p); *p = q; }
      SYM_ASSERT(p->getValue() == cv, "history: value differs from the last accepted request");
      SYM_ASSERT(p->hasConstraint() == has, "history: constraint presence differs"); SYM_ASSERT(p->getPrecision() == pr, "history: precision differs");
      if (has) SYM_ASSERT(p->getConstraint().get() == cur.get() && spec(curI.l, curI.u, curI.il, curI.iu, p->getValue()), "history: parameter holds a value its constraint rejects");
    }
    delete p;
    break; }
  case 6: {   // description parser: a finite grammar of bracket descriptions read into a fresh interval (string constructor) or into an existing interval with arbitrary bounds and flags; decided for a symbolic test point
    static const char* LO[] = {"-inf", "0", "-2.5", "1e-3", "3"}; static const double LOV[] = {-INF, 0, -2.5, 1e-3, 3};
    static const char* UP[] = {"inf", "+inf", "1", "7.25", "3"}; static const double UPV[] = {INF, INF, 1, 7.25, 3};
    int ol = __sym_choose("open", 0, 1), cl = __sym_choose("close", 0, 1), lo = __sym_choose("lowerToken", 0, 4), up = __sym_choose("upperToken", 0, 4);
    string desc = string(ol ? "]" : "[") + LO[lo] + ";" + UP[up] + (cl ? "[" : "]");
    bool il = !ol, iu = !cl; double L = LOV[lo], U = UPV[up];
    int fresh = __sym_choose("fresh", 0, 1);
    unique_ptr<IntervalConstraint> c;
    if (fresh) c.reset(new IntervalConstraint(desc));
    else { Itv i = anyInterval("c"); c.reset(new IntervalConstraint(i.l, i.u, i.il, i.iu)); c->readDescription(desc); }
    double t = anyValue("t");
    SYM_ASSERT(c->isCorrect(t) == spec(L, U, il, iu, t), "a description does not parse to the interval it denotes (membership of a test point differs)");
    SYM_ASSERT(c->getLowerBound() == L && c->getUpperBound() == U && c->strictLowerBound() == !il && c->strictUpperBound() == !iu, "a description does not parse to the bounds and flags it denotes");
    SYM_ASSERT(c->isEmpty() == specEmpty(L, U, il, iu), "emptiness of a parsed interval differs from 'no real is accepted'");
    // a parameter constrained by the parsed interval obeys it
    double v = anyValue("v"); bool threw = false; Parameter* p = nullptr; shared_ptr<IntervalConstraint> sc(c.release());
    try { p = new Parameter("x", v, sc); } catch (ConstraintException&) { threw = true; }
    SYM_ASSERT(threw == !spec(L, U, il, iu, v), "constructor with a parsed constraint: raise condition differs from membership"); delete p;
    break; }
  case 5: {   // auto-correcting parameter
    Itv i = anyInterval("c"); double v0 = anyValue("v0"), x = anyValue("x");
    SYM_ASSUME(spec(i.l, i.u, i.il, i.iu, v0));
    SYM_ASSUME(x >= -1000 && x <= 1000);
    if (i.l != -INF && i.u != INF) SYM_ASSUME(i.u - i.l >= 1e-9);
    if (i.l != -INF) SYM_ASSUME(i.l >= -1000 && i.l <= 1000);
    if (i.u != INF) SYM_ASSUME(i.u >= -1000 && i.u <= 1000);
    auto c = mk(i);
    AutoParameter ap("x", 1.0); ap.setMessageHandler(nullptr);
    ap.Parameter::setValue(v0); ap.setConstraint(c);
    bool threw = false;
    try { ap.setValue(x); } catch (Exception&) { threw = true; }
    SYM_ASSERT(!threw, "auto-correcting parameter raised for a finite request");
    double r = ap.getValue();
    SYM_ASSERT(spec(i.l, i.u, i.il, i.iu, r), "auto-correcting parameter ends on a rejected value");
    double step = NumConstants::TINY();
    double want = spec(i.l, i.u, i.il, i.iu, x) ? x : (x <= i.l ? (i.il ? i.l : i.l + step) : (i.iu ? i.u : i.u - step));
    SYM_ASSERT_EQ(r, want, "auto-correcting parameter does not end on the nearest accepted value");
    break; }
  }
}
