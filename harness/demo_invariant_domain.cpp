#include <Bpp/Numeric/Prob/InvariantMixedDiscreteDistribution.h>
#include <Bpp/Numeric/Prob/UniformDiscreteDistribution.h>
#include <Bpp/Numeric/Prob/GammaDiscreteDistribution.h>
#include <iostream>
using namespace bpp; using namespace std;
int main(){ int bad=0;
 InvariantMixedDiscreteDistribution d(unique_ptr<DiscreteDistributionInterface>(new GammaDiscreteDistribution(4, 0.5, 0.5)), 0.2, 0.0);
 cout<<"domain: "<<(d.strictLowerBound()?"]":"[")<<d.getLowerBound()<<";"<<d.getUpperBound()<<(d.strictUpperBound()?"[":"]")<<endl;
 for(size_t i=0;i<d.getNumberOfCategories();i++){ double v=d.getCategory(i); try{ double c=d.getValueCategory(v); size_t k=d.getCategoryIndex(v); cout<<"class "<<i<<" value "<<v<<" -> lookup value "<<c<<" index "<<k<<endl; if(c!=v) bad++; }catch(exception&e){ cout<<"class "<<i<<" value "<<v<<" -> lookup raised: "<<string(e.what()).substr(0,80)<<endl; bad++; } }
 { UniformDiscreteDistribution u(3, 1.0, 2.0); InvariantMixedDiscreteDistribution m(unique_ptr<DiscreteDistributionInterface>(new UniformDiscreteDistribution(3, 1.0, 2.0)), 0.2, 0.0);
   cout<<"nested uniform domain "<<(u.strictLowerBound()?"]":"[")<<u.getLowerBound()<<";"<<u.getUpperBound()<<(u.strictUpperBound()?"[":"]")<<"  mixed domain "<<(m.strictLowerBound()?"]":"[")<<m.getLowerBound()<<";"<<m.getUpperBound()<<(m.strictUpperBound()?"[":"]")<<endl;
   try{ cout<<"nested lookup of 2: "<<u.getValueCategory(2.0)<<endl; }catch(exception&){cout<<"nested lookup of 2 raised"<<endl; bad++;}
   try{ cout<<"mixed lookup of 2: "<<m.getValueCategory(2.0)<<endl; }catch(exception&){cout<<"mixed lookup of the upper end 2 raised"<<endl; bad++;} }
 return bad; }
