#include <Bpp/Numeric/Function/OneDimensionOptimizationTools.h>
#include <Bpp/Numeric/Function/Functions.h>
#include <Bpp/Numeric/AbstractParametrizable.h>
#include <iostream>
#include <cmath>
using namespace bpp; using namespace std;
class F : public virtual FunctionInterface, public AbstractParametrizable { public: int which;
  F(int w) : AbstractParametrizable(""), which(w) { addParameter_(new Parameter("x", 0)); }
  F* clone() const override { return new F(*this); }
  void setParameters(const ParameterList& pl) override { matchParametersValues(pl); }
  double getValue() const override { double x = getParameterValue("x"); switch (which) { case 0: return -log(1 + x) + 0.0004 * x * x; case 1: return -sqrt(1 + x) + 0.003 * x; case 2: return exp(-x) + 0.0001 * x; default: return 1 / (1 + x) + 0.0002 * x; } } };
int main() { int bad = 0; for (int w = 0; w < 4; w++) for (double a0 : {0.0, 0.5}) for (double b0 : {1.0, 0.7, 2.0}) { F f(w); Bracket br = OneDimensionOptimizationTools::bracketMinimum(a0, b0, f, f.getParameters());
  bool ordered = (br.a.x < br.b.x && br.b.x < br.c.x) || (br.a.x > br.b.x && br.b.x > br.c.x); bool low = br.b.f <= br.a.f && br.b.f <= br.c.f;
  cout << "f" << w << " [" << a0 << "," << b0 << "]: a=" << br.a.x << " b=" << br.b.x << " c=" << br.c.x << "  fa=" << br.a.f << " fb=" << br.b.f << " fc=" << br.c.f << (ordered ? "" : "  NOT ORDERED") << (low ? "" : "  MIDDLE NOT LOWEST") << endl; if (!ordered || !low) bad++; }
  return bad ? 1 : 0; }
