#include <Bpp/Numeric/AbstractParameterAliasable.h>
#include <Bpp/App/ApplicationTools.h>
#include <iostream>
using namespace bpp; using namespace std;
struct Obj : AbstractParameterAliasable { Obj():AbstractParameterAliasable(""){} Obj* clone() const override {return new Obj(*this);} void add(Parameter*p){addParameter_(p);} };
int main(){ ApplicationTools::warning=nullptr; Obj o; o.add(new Parameter("A",0.5,make_shared<IntervalConstraint>(0,1.0000002,true,true))); o.add(new Parameter("B",0.5,make_shared<IntervalConstraint>(0,1.0000001,true,true)));
 o.aliasParameters("A","B"); cout<<o.parameter("A").getConstraint()->getDescription()<<" "<<o.parameter("B").getConstraint()->getDescription()<<endl;
 try{ o.setParameterValue("A",1.00000015);}catch(Exception&e){cout<<"raised: "<<e.what()<<endl;}
 cout.precision(12); cout<<"A="<<o.getParameterValue("A")<<" B="<<o.getParameterValue("B")<<endl; return o.getParameterValue("A")==o.getParameterValue("B")?0:1;}
