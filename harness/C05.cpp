// C05: LU solve, inverse and determinant meet their equations or report singularity (REAL mode).
#include "hmat.h"
#include <Bpp/Numeric/Matrix/LUDecomposition.h>
#include <Bpp/Numeric/NumConstants.h>
using namespace std;
#ifndef NMIN
#define NMIN 1
#endif
#ifndef NMAX
#define NMAX 2
#endif
#ifndef NSYM
#define NSYM 9
#endif

static double refDet(const Matrix<double>& A, int n) {
  if (n == 1) return A(0, 0);
  if (n == 2) return A(0, 0) * A(1, 1) - A(0, 1) * A(1, 0);
  return A(0, 0) * (A(1, 1) * A(2, 2) - A(1, 2) * A(2, 1)) - A(0, 1) * (A(1, 0) * A(2, 2) - A(1, 2) * A(2, 0)) + A(0, 2) * (A(1, 0) * A(2, 1) - A(1, 1) * A(2, 0));
}
// arbitrary n x n matrix: the first NSYM entries (in a forked order pattern) are symbolic, the others fixed small integers
static void anyMatrix(Matrix<double>& A, int n, const string& tag) {
  static const int fixedVals[9] = {2, -1, 3, 1, 4, -2, -3, 1, 5};
  int pattern = (n * n > NSYM) ? __sym_choose((tag + ".pattern").c_str(), 0, 2) : 0;
  int cnt = 0;
  for (int idx = 0; idx < n * n; idx++) {
    int i, j;
    if (pattern == 0) { i = idx / n; j = idx % n; }           // row-major: first rows symbolic
    else if (pattern == 1) { i = idx % n; j = idx / n; }      // column-major: first columns symbolic
    else { int k = (idx * 4) % (n * n == 9 ? 9 : n * n + 1); if (n * n != 9) k = idx; i = k / n; j = k % n; }   // diagonal first (0,4,8,3,7,2,6,1,5 for n=3)
    if (cnt < NSYM) { A(i, j) = symd(tag + to_string(i) + to_string(j)); cnt++; }
    else A(i, j) = fixedVals[(i * n + j) % 9];
  }
}

extern "C" void verif_harness() {
  int which = __sym_choose("harness", HLO, HHI);
  int n = __sym_choose("n", NMIN, NMAX);
  if (which == 0) {
    // factorisation, determinant, pivot sign
    int ka = anyKind("A");
    MP A = mkMatrix(ka, n, n); anyMatrix(*A, n, "a");
    LUDecomposition<double> lu(*A);
    RowMatrix<double> L = lu.getL(), U = lu.getU();
    vector<size_t> piv = lu.getPivot();
    SYM_ASSERT((int)piv.size() == n && (int)L.getNumberOfRows() == n && (int)U.getNumberOfColumns() == n, "factor dimensions");
    vector<int> seen(n, 0);
    for (int i = 0; i < n; i++) { SYM_ASSERT(piv[i] < (size_t)n, "pivot index out of range"); seen[piv[i]]++; }
    for (int i = 0; i < n; i++) SYM_ASSERT(seen[i] == 1, "pivot vector is not a permutation");
    for (int i = 0; i < n; i++) for (int j = 0; j < n; j++) {
      if (i == j) SYM_ASSERT(L(i, j) == 1.0, "L is not unit-diagonal");
      if (j > i) SYM_ASSERT(L(i, j) == 0.0, "L is not lower-triangular");
      if (i > j) SYM_ASSERT(U(i, j) == 0.0, "U is not upper-triangular");
      double s = 0; for (int k = 0; k < n; k++) s += L(i, k) * U(k, j);
      SYM_ASSERT_EQ(s, (*A)(piv[i], j), "P.A != L.U");
    }
    // determinant = cofactor expansion; its sign factor is the parity of the permutation
    int inv = 0; for (int i = 0; i < n; i++) for (int j = i + 1; j < n; j++) if (piv[i] > piv[j]) inv++;
    double prodU = 1; for (int i = 0; i < n; i++) prodU *= U(i, i);
    double d = lu.det();
    SYM_ASSERT_EQ(d, (inv % 2 ? -1.0 : 1.0) * prodU, "det() does not use the sign of the row permutation");
    SYM_ASSERT_EQ(d, refDet(*A, n), "det differs from the cofactor expansion");
    SYM_ASSERT_EQ(MatrixTools::det(*A), refDet(*A, n), "MatrixTools::det differs from the cofactor expansion");
    MP At = mkMatrix(ka, n, n); MatrixTools::transpose(*A, *At);
    SYM_ASSERT_EQ(MatrixTools::det(*At), d, "det(A) != det(transpose A)");
  } else if (which == 1) {
    // solve / inverse: equations or singularity report
    int ka = anyKind("A"), kb = anyKind("B"), kx = anyKind("X");
    MP A = mkMatrix(ka, n, n); anyMatrix(*A, n, "a");
    int nrhs = __sym_choose("nrhs", 1, 2);
    MP B = mkMatrix(kb, n, nrhs); fillSym(*B, "b");
    MP X = mkMatrix(kx, 0, 0);
    LUDecomposition<double> lu(*A);
    RowMatrix<double> U = lu.getU();
    double minPiv = U(0, 0) < 0 ? -U(0, 0) : U(0, 0);
    for (int i = 1; i < n; i++) { double a = U(i, i) < 0 ? -U(i, i) : U(i, i); if (a < minPiv) minPiv = a; }
    bool threw = false; double ind = 0;
    try { ind = lu.solve(*B, *X); } catch (ZeroDivisionException&) { threw = true; }
    if (threw) SYM_ASSERT(minPiv < NumConstants::SMALL(), "zero-division error although the smallest pivot is above the threshold");
    else {
      SYM_ASSERT(!(minPiv < NumConstants::SMALL()), "solve returned although the smallest pivot is below the threshold");
      SYM_ASSERT_EQ(ind, minPiv, "returned indicator is not the smallest pivot magnitude");
      SYM_ASSERT((int)X->getNumberOfRows() == n && (int)X->getNumberOfColumns() == nrhs, "solution has the wrong shape");
      for (int i = 0; i < n; i++) for (int j = 0; j < nrhs; j++) { double s = 0; for (int k = 0; k < n; k++) s += (*A)(i, k) * (*X)(k, j); SYM_ASSERT_EQ(s, (*B)(i, j), "A.X != B"); }
    }
    // inverse
    MP I = mkMatrix(kx, 0, 0); threw = false;
    try { ind = MatrixTools::inv(*A, *I); } catch (ZeroDivisionException&) { threw = true; }
    if (threw) SYM_ASSERT(minPiv < NumConstants::SMALL(), "inv raised although the smallest pivot is above the threshold");
    else {
      SYM_ASSERT(!(minPiv < NumConstants::SMALL()), "inv returned although the smallest pivot is below the threshold");
      SYM_ASSERT_EQ(ind, minPiv, "inv: returned indicator is not the smallest pivot magnitude");
      for (int i = 0; i < n; i++) for (int j = 0; j < n; j++) { double s = 0; for (int k = 0; k < n; k++) s += (*A)(i, k) * (*I)(k, j); SYM_ASSERT_EQ(s, (i == j ? 1.0 : 0.0), "A.inverse != identity"); }
    }
  } else if (which == 2) {
    // refusals: wrong-height right-hand side, non-square input
    MP A = mkMatrix(anyKind("A"), n, n); anyMatrix(*A, n, "a");
    int hb = __sym_choose("rhsHeight", 0, 4); if (hb == n) return;
    MP B = mkMatrix(anyKind("B"), hb, 1); fillSym(*B, "b");
    RowMatrix<double> X; bool refused = false;
    LUDecomposition<double> lu(*A);
    try { lu.solve(*B, X); } catch (BadIntegerException&) { refused = true; } catch (ZeroDivisionException&) { refused = false; }
    SYM_ASSERT(refused, "right-hand side of the wrong height was not refused");
    RowMatrix<double> NS(n, n + 1), O; for (int i = 0; i < n; i++) for (int j = 0; j <= n; j++) NS(i, j) = 1.0;
    bool r2 = false; try { MatrixTools::inv(NS, O); } catch (DimensionException&) { r2 = true; }
    bool r3 = false; try { MatrixTools::det(NS); } catch (DimensionException&) { r3 = true; }
    SYM_ASSERT(r2 && r3, "inverse/determinant of a non-square matrix was not refused");
  } else {
    // det(A.B) = det(A).det(B)
    MP A = mkMatrix(anyKind("A"), n, n), B = mkMatrix(anyKind("B"), n, n); anyMatrix(*A, n, "a"); anyMatrix(*B, n, "b");
    RowMatrix<double> C; MatrixTools::mult(*A, *B, C);
    SYM_ASSERT_EQ(MatrixTools::det(C), MatrixTools::det(*A) * MatrixTools::det(*B), "det(AB) != det(A)det(B)");
  }
}
