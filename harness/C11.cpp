// C11: constraint-removing reparametrisation is a faithful change of variables (REAL mode, axiomatised exp/log, tanh/atanh, tan/atan).
#include <Bpp/Numeric/TransformedParameter.h>
#include <Bpp/Numeric/Function/ReparametrizationFunctionWrapper.h>
#include <Bpp/Numeric/Function/Functions.h>
#include <Bpp/Numeric/AbstractParametrizable.h>
#include <Bpp/Numeric/Constraints.h>
#include <Bpp/App/ApplicationTools.h>
#include "symrt.h"
#include <limits>
#include <memory>
#include <cmath>
using namespace bpp;
using namespace std;
#ifndef NPAR
#define NPAR 2
#endif
static const double INF = numeric_limits<double>::infinity();
static const char* NM[] = {"p", "q", "r", "s", "t"};

// the function being wrapped: value and derivatives are uninterpreted functions of its (at most two) parameters
class UF : public virtual SecondOrderDerivable, public AbstractParametrizable {
public:
  UF() : AbstractParametrizable("") {}
  UF* clone() const override { return new UF(*this); }
  void add(Parameter* p) { addParameter_(p); }
  void setParameters(const ParameterList& pl) override { matchParametersValues(pl); }
  double arg(size_t i) const { return i < getNumberOfParameters() ? getParameters()[i].getValue() : 0.0; }
  double getValue() const override { return __sym_apply2("f", arg(0), arg(1)); }
  void enableFirstOrderDerivatives(bool) override {}
  bool enableFirstOrderDerivatives() const override { return true; }
  void enableSecondOrderDerivatives(bool) override {}
  bool enableSecondOrderDerivatives() const override { return true; }
  double getFirstOrderDerivative(const string& v) const override { return __sym_apply2(("df_" + v).c_str(), arg(0), arg(1)); }
  double getSecondOrderDerivative(const string& v) const override { return __sym_apply2(("d2f_" + v).c_str(), arg(0), arg(1)); }
  double getSecondOrderDerivative(const string& v, const string& w) const override { return __sym_apply2(("d2f_" + v + "_" + w).c_str(), arg(0), arg(1)); }
};
// first and second derivative of the map x -> getOriginalValue at the parameter's current coordinate x:
// symbolic build: derivative of the recorded arithmetic; native replay of a counterexample: fourth-order finite differences (compared with the replay tolerance)
static void mapDerivs(const TransformedParameter& p0, double x, double& d1, double& d2) {
#ifdef SYM_REPLAY
  unique_ptr<TransformedParameter> p(p0.clone()); auto F = [&](double z) { p->setValue(z); return p->getOriginalValue(); };
  double e = 1e-3 * (1 + fabs(x));
  d1 = (-F(x + 2 * e) + 8 * F(x + e) - 8 * F(x - e) + F(x - 2 * e)) / (12 * e); d2 = (-F(x + 2 * e) + 16 * F(x + e) - 30 * F(x) + 16 * F(x - e) - F(x - 2 * e)) / (12 * e * e);
#else
  double o = p0.getOriginalValue(); d1 = __sym_diff(o, x); d2 = __sym_diff(d1, x);
#endif
}
struct Shape { int kind; double l, u; bool il, iu; };     // kind 0: no constraint; 1..4 finite [a,b] ]a,b[ [a,b[ ]a,b];  5 ]a,inf[ 6 [a,inf[ 7 ]-inf,a[ 8 ]-inf,a]
static bool inside(const Shape& s, double x) { if (s.kind == 0) return true; bool lo = s.l == -INF ? true : (s.il ? x >= s.l : x > s.l); bool hi = s.u == INF ? true : (s.iu ? x <= s.u : x < s.u); return lo && hi; }
static Shape anyShape(const string& tag, int lo = 0) {
  Shape s; s.kind = __sym_choose((tag + ".shape").c_str(), lo, 8); s.l = -INF; s.u = INF; s.il = s.iu = false;
  if (s.kind >= 1 && s.kind <= 6) s.l = symd(tag + ".lo"); if ((s.kind >= 1 && s.kind <= 4) || s.kind >= 7) s.u = symd(tag + ".hi");
  if (s.kind >= 1 && s.kind <= 4) SYM_ASSUME(s.u - s.l >= 1e-6);      // intervals are at least a few precision steps wide
  s.il = (s.kind == 1 || s.kind == 3 || s.kind == 6); s.iu = (s.kind == 1 || s.kind == 4 || s.kind == 8);
  return s;
}

extern "C" void verif_harness() {
  ApplicationTools::message = nullptr; ApplicationTools::warning = nullptr; ApplicationTools::error = nullptr;
  int which = __sym_choose("harness", HLO, HHI);
  if (which == 0) {
    // ---- the transforms themselves: round trip, strict monotonicity, range, pass-through ----
    int kind = __sym_choose("transform", 0, 4);      // 0 half-line up, 1 half-line down, 2 interval/tanh, 3 interval/tan, 4 placebo
    double v = symd("v"), w = symd("w");
    if (kind <= 1) {
      bool pos = kind == 0; double b = symd("bound");
      SYM_ASSUME(pos ? (v > b && w > b) : (v < b && w < b));
      RTransformedParameter p("x", v, b, pos, 1.0);
      SYM_ASSERT_EQ(p.getOriginalValue(), v, "half-line transform: round trip at construction differs");
      double xv = p.getValue();
      p.setOriginalValue(w); SYM_ASSERT_EQ(p.getOriginalValue(), w, "half-line transform: round trip through the setter differs");
      double xw = p.getValue();
      if (v < w) SYM_ASSERT(pos ? xv < xw : xv > xw, "half-line transform is not strictly monotone"); if (v == w) SYM_ASSERT(xv == xw, "half-line transform is not a function");
      double x = symd("x"); p.setValue(x); double o = p.getOriginalValue(); SYM_ASSERT(pos ? o > b : o < b, "half-line transform: back-transformed point outside the half line");
      bool th = false; try { p.setOriginalValue(b); } catch (ConstraintException&) { th = true; } SYM_ASSERT(th, "half-line transform accepted the bound itself");
    } else if (kind <= 3) {
      bool hyper = kind == 2; double l = symd("l"), u = symd("u"), s = symd("scale");
      SYM_ASSUME(l < u && v > l && v < u && w > l && w < u && s >= 0.1 && s <= 10);
      IntervalTransformedParameter p("x", v, l, u, s, hyper);
      SYM_ASSERT_EQ(p.getOriginalValue(), v, "interval transform: round trip at construction differs");
      double xv = p.getValue();
      p.setOriginalValue(w); SYM_ASSERT_EQ(p.getOriginalValue(), w, "interval transform: round trip through the setter differs");
      double xw = p.getValue();
      if (v < w) SYM_ASSERT(xv < xw, "interval transform is not strictly increasing"); if (v == w) SYM_ASSERT(xv == xw, "interval transform is not a function");
      double x = symd("x"); SYM_ASSUME(x >= -30 && x <= 30); p.setValue(x); double o = p.getOriginalValue(); SYM_ASSERT(o > l && o < u, "interval transform: back-transformed point outside the interval");
      bool th = false; try { p.setOriginalValue(u); } catch (ConstraintException&) { th = true; } SYM_ASSERT(th, "interval transform accepted the upper bound itself");
    } else { PlaceboTransformedParameter p("x", v); SYM_ASSERT(p.getOriginalValue() == v && p.getValue() == v, "pass-through changes the value"); p.setOriginalValue(w); SYM_ASSERT(p.getValue() == w && p.getOriginalValue() == w, "pass-through changes the value");
      SYM_ASSERT(p.getFirstOrderDerivative() == 1.0 && p.getSecondOrderDerivative() == 0.0, "pass-through derivatives"); }
  } else if (which == 1) {
    // ---- derivatives of the map: the code's formulas against the derivative of the recorded arithmetic of getOriginalValue ----
    int kind = __sym_choose("transform", 0, 3); double x = symd("x"); SYM_ASSUME(x >= -30 && x <= 30);
    unique_ptr<TransformedParameter> p;
    if (kind <= 1) { double b = symd("bound"); p.reset(new RTransformedParameter("x", kind == 0 ? b + 1 : b - 1, b, kind == 0, 1.0)); }
    else { double l = symd("l"), u = symd("u"), s = symd("scale"); SYM_ASSUME(l < u && s >= 0.1 && s <= 10); p.reset(new IntervalTransformedParameter("x", (l + u) / 2, l, u, s, kind == 2)); }
    SYM_ASSUME(!(x == p->getValue()));      // (a request equal to the current value is ignored by Parameter::setValue: x would not enter the arithmetic)
    p->setValue(x);
    double d1, d2; mapDerivs(*p, x, d1, d2);
    SYM_ASSERT_EQ(p->getFirstOrderDerivative(), d1, "first derivative of the map differs from the derivative of getOriginalValue");
    SYM_ASSERT_EQ(p->getSecondOrderDerivative(), d2, "second derivative of the map differs from the second derivative of getOriginalValue");
  } else if (which == 2) {
    // ---- the wrapper: parameters kept at wrapping time, evaluation at the back-transformed point, feasibility ----
    int n = __sym_choose("nparams", 1, NPAR);
    auto f = make_shared<UF>(); vector<Shape> sh(n); vector<double> v0(n);
    for (int i = 0; i < n; i++) { sh[i] = anyShape(NM[i]); v0[i] = symd(string("v") + NM[i]); SYM_ASSUME(inside(sh[i], v0[i]));
      // the wrapper moves an open bound inwards by 1e-12 before transforming: values closer than that to an open bound are outside the claim
      if (sh[i].l != -INF && !sh[i].il) SYM_ASSUME(v0[i] - sh[i].l > 2e-12); if (sh[i].u != INF && !sh[i].iu) SYM_ASSUME(sh[i].u - v0[i] > 2e-12);
      if (sh[i].kind == 0) f->add(new Parameter(NM[i], v0[i])); else f->add(new Parameter(NM[i], v0[i], make_shared<IntervalConstraint>(sh[i].l, sh[i].u, sh[i].il, sh[i].iu))); }
    ReparametrizationFunctionWrapper wr(f, false);
    SYM_ASSERT((int)wr.getNumberOfParameters() == n, "wrapper has a different number of parameters");
    for (int i = 0; i < n; i++) { SYM_ASSERT(f->getParameterValue(NM[i]) == v0[i], "wrapping changed a parameter of the wrapped function");
      double back = dynamic_cast<const TransformedParameter&>(wr.parameter(NM[i])).getOriginalValue();
      SYM_ASSERT(__sym_eq_tol(back, v0[i], 2.5e-12), "immediately after wrapping a transformed parameter does not map back to the original value");
      if (sh[i].kind == 0) SYM_ASSERT(wr.getParameterValue(NM[i]) == v0[i], "an unconstrained parameter does not pass through unchanged"); }
    // evaluate at an arbitrary real transformed point
    ParameterList pl; vector<double> x(n); for (int i = 0; i < n; i++) { x[i] = symd(string("x") + NM[i]); SYM_ASSUME(x[i] >= -30 && x[i] <= 30); pl.addParameter(Parameter(NM[i], x[i])); }
    int how = __sym_choose("entry", 0, 1); double val;
    if (how == 0) { wr.setParameters(pl); val = wr.getValue(); } else val = wr.f(pl);
    vector<double> o(n); for (int i = 0; i < n; i++) { o[i] = dynamic_cast<const TransformedParameter&>(wr.parameter(NM[i])).getOriginalValue(); SYM_ASSERT(inside(sh[i], o[i]), "back-transformed point violates the original constraint");
      SYM_ASSERT(__sym_eq_tol(f->getParameterValue(NM[i]), o[i], 2.5e-12), "wrapped function is not left at the back-transformed point"); if (sh[i].kind == 0) SYM_ASSERT(o[i] == x[i], "unconstrained parameter is not passed through"); }
    SYM_ASSERT_EQ(val, __sym_apply2("f", f->getParameterValue(NM[0]), n > 1 ? f->getParameterValue(NM[1]) : 0.0), "wrapper value differs from the original function at the point it was left at");
  } else {
    // ---- chain rule for the wrapped derivatives ----
    int n = __sym_choose("nparams", 1, 2);
    auto f = make_shared<UF>(); vector<Shape> sh(n);
    for (int i = 0; i < n; i++) { sh[i] = anyShape(NM[i]); double v0 = symd(string("v") + NM[i]); SYM_ASSUME(inside(sh[i], v0)); if (sh[i].kind >= 1 && sh[i].kind <= 4) SYM_ASSUME(v0 - sh[i].l > 1e-9 && sh[i].u - v0 > 1e-9); else if (sh[i].kind == 5 || sh[i].kind == 6) SYM_ASSUME(v0 - sh[i].l > 1e-9); else if (sh[i].kind >= 7) SYM_ASSUME(sh[i].u - v0 > 1e-9);
      if (sh[i].kind == 0) f->add(new Parameter(NM[i], v0)); else f->add(new Parameter(NM[i], v0, make_shared<IntervalConstraint>(sh[i].l, sh[i].u, sh[i].il, sh[i].iu))); }
    ReparametrizationDerivableSecondOrderWrapper wr(f, false);
    ParameterList pl; vector<double> x(n); for (int i = 0; i < n; i++) { x[i] = symd(string("x") + NM[i]); SYM_ASSUME(x[i] >= -30 && x[i] <= 30); SYM_ASSUME(!(x[i] == wr.getParameterValue(NM[i])) && !(x[i] == 0)); /* requests equal to the current value, or to the constructor's initial 0, are ignored by Parameter::setValue: x would not enter the arithmetic */ pl.addParameter(Parameter(NM[i], x[i])); }
    wr.setParameters(pl);
    vector<double> o(n), t1(n), t2(n); for (int i = 0; i < n; i++) { const TransformedParameter& tp = dynamic_cast<const TransformedParameter&>(wr.parameter(NM[i])); o[i] = tp.getOriginalValue(); mapDerivs(tp, x[i], t1[i], t2[i]); }
    double a0 = o[0], a1 = n > 1 ? o[1] : 0.0;
    for (int i = 0; i < n; i++) { string v = NM[i];
      double g = __sym_apply2(("df_" + v).c_str(), a0, a1), h = __sym_apply2(("d2f_" + v).c_str(), a0, a1);
      SYM_ASSERT_EQ(wr.getFirstOrderDerivative(v), g * t1[i], "wrapped first derivative does not obey the chain rule");
      SYM_ASSERT_EQ(wr.getSecondOrderDerivative(v), h * t1[i] * t1[i] + g * t2[i], "wrapped second derivative does not obey the chain rule"); }
    if (n == 2) { double c = __sym_apply2("d2f_p_q", a0, a1); SYM_ASSERT_EQ(wr.getSecondOrderDerivative("p", "q"), c * t1[0] * t1[1], "wrapped cross derivative does not obey the chain rule"); }
  }
}
