// C18: random draws follow the named law's parameter conventions and keep structural constraints.
// The uniform random source is stubbed (engine_s/stub_random.h): every uniform draw is a fresh solver variable u_k in [0,1),
// and "the same random stream" is obtained by rewinding the symbolic stream.  Claims are exact statements over all streams.
#include <Bpp/Numeric/Random/RandomTools.h>
#include <Bpp/Numeric/Random/ContingencyTableGenerator.h>
#include <Bpp/Numeric/Stat/ContingencyTableTest.h>
#include <Bpp/Numeric/Prob/GaussianDiscreteDistribution.h>
#include <Bpp/Numeric/Prob/ExponentialDiscreteDistribution.h>
#include <Bpp/Numeric/Prob/GammaDiscreteDistribution.h>
#include <Bpp/Numeric/Prob/SimpleDiscreteDistribution.h>
#include <Bpp/Numeric/Prob/UniformDiscreteDistribution.h>
#include <Bpp/Numeric/Prob/TruncatedExponentialDiscreteDistribution.h>
#include <Bpp/Numeric/Prob/ConstantDistribution.h>
#include <map>
#include <Bpp/Numeric/VectorTools.h>
#include <Bpp/App/ApplicationTools.h>
#include "symrt.h"
#include <cmath>
using namespace bpp;
using namespace std;
#ifndef NMAX
#define NMAX 3
#endif
#ifndef TOTMAX
#define TOTMAX 4
#endif

extern "C" void verif_harness() {
  ApplicationTools::message = nullptr; ApplicationTools::warning = nullptr; ApplicationTools::error = nullptr;
  int which = __sym_choose("harness", HLO, HHI);
  if (which == 0) {
    // ---- continuous samplers: parameter conventions as exact statements over the random stream ----
    int law = __sym_choose("law", 0, 9);
    if (law == 0) { double e = sympos("entry"); double x = RandomTools::giveRandomNumberBetweenZeroAndEntry(e); SYM_ASSERT(x >= 0 && x < e, "uniform draw outside [0, entry)");
      __sym_uniform_rewind(); double u = __sym_uniform01(); SYM_ASSERT_EQ(x, u * e, "uniform draw is not entry times the canonical uniform");
      double p = symd("p"); SYM_ASSUME(p >= 0 && p <= 1); __sym_uniform_rewind(); bool c = RandomTools::flipCoin(p); SYM_ASSERT(c == (u < p), "coin flip differs from 'uniform < probability'"); }
    else if (law == 1) { double m = sympos("mean");          // exponential: the argument is the mean, so the draw is the quantile -mean.log(1-u)
      double x = RandomTools::randExponential(m); __sym_uniform_rewind(); double u = __sym_uniform01();
      SYM_ASSERT(x >= 0, "negative exponential draw");
      SYM_ASSERT_EQ(std::exp(-x / m), 1 - u, "exponential draw is not the quantile of the exponential law with the given mean (1 - exp(-x/mean) = u)"); }
    else if (law == 2) { double m = symd("mean"), v = sympos("variance");   // gaussian(m, v) = m + sqrt(v).gaussian(0,1) on the same stream
      double z = RandomTools::randGaussian(0.0, 1.0); int draws = __sym_uniform_count(); __sym_uniform_rewind(); double x = RandomTools::randGaussian(m, v);
      SYM_ASSERT(__sym_uniform_count() == draws, "gaussian draws consume different numbers of uniforms for the same stream");
      double d = (x - m); SYM_ASSERT_EQ(d * d, v * z * z, "gaussian(mean, variance) is not mean + sqrt(variance) times the standard draw"); SYM_ASSERT((d >= 0) == (z >= 0), "gaussian draw on the wrong side of the mean"); }
    else if (law == 3) { static const double AL[3] = {2.5, 1.0, 0.5}; double a = AL[__sym_choose("alpha", 0, 2)], b = sympos("beta");   // gamma(alpha, beta): beta is a rate, as in pGamma/qGamma
      double g1 = RandomTools::randGamma(a); int draws = __sym_uniform_count(); __sym_uniform_rewind(); double g = RandomTools::randGamma(a, b);
      SYM_ASSERT(__sym_uniform_count() == draws, "gamma draws consume different numbers of uniforms for the same stream");
      SYM_ASSERT_EQ(g * b, g1, "gamma(alpha, beta) is not the unit draw divided by the rate beta (the convention of the library's own cdf)"); }
    else if (law == 4) { static const double MU[2] = {1.5, -3.0}, SG[2] = {2.0, 0.5}; int k = __sym_choose("parameters", 0, 1); double mu = MU[k], sg = SG[k];   // (constructing the distribution discretises it: concrete parameters)     // the gaussian distribution's own continuous draw has standard deviation sigma
      GaussianDiscreteDistribution gd(2, mu, sg); __sym_uniform_rewind(); double z = RandomTools::randGaussian(0.0, 1.0); __sym_uniform_rewind(); double x = gd.randC();
      SYM_ASSERT_EQ(x, mu + sg * z, "the gaussian distribution's continuous draw is not mu + sigma times the standard draw"); }
    else if (law == 6) { static const double LO[2] = {0.0, -2.0}, HI[2] = {1.0, 3.5}; int k = __sym_choose("parameters", 0, 1);   // the uniform distribution's continuous draw: its own cdf at the draw is the uniform variate
      UniformDiscreteDistribution ud(3, LO[k], HI[k]); __sym_uniform_rewind(); double x = ud.randC(); if (__sym_uniform_count() != 1) return; __sym_uniform_rewind(); double u = __sym_uniform01();
      SYM_ASSERT(x >= LO[k] && x <= HI[k], "the uniform distribution's draw is outside its support"); SYM_ASSERT_EQ(ud.pProb(x), u, "the uniform distribution's cdf at its continuous draw is not the uniform variate"); }
    else if (law == 7) { static const double LA[2] = {1.0, 2.5}, TP[2] = {2.0, 1.5}; int k = __sym_choose("parameters", 0, 1);   // truncated exponential: an accepted first draw is the exponential quantile for the rate lambda, inside the truncated support
      TruncatedExponentialDiscreteDistribution td(3, LA[k], TP[k]); __sym_uniform_rewind(); double x = td.randC(); if (__sym_uniform_count() != 1) return; __sym_uniform_rewind(); double u = __sym_uniform01();
      SYM_ASSERT(x >= 0 && x <= TP[k], "the truncated exponential's draw is outside its support"); SYM_ASSERT_EQ(std::exp(-x * LA[k]), 1 - u, "the truncated exponential's continuous draw is not the exponential quantile for its rate"); }
    else if (law == 8) { int n = __sym_choose("classes", 1, 3); map<double, double> d; vector<double> val(n), pr(n); double S = 0; for (int i = 0; i < n; i++) { pr[i] = sympos("w" + to_string(i)); S += pr[i]; }   // a discrete distribution's draw: the class whose cumulative-probability interval contains the uniform variate
      for (int i = 0; i < n; i++) { val[i] = 1.0 + 2.0 * i; pr[i] = pr[i] / S; d[val[i]] = pr[i]; }
      SimpleDiscreteDistribution sd(d); __sym_uniform_rewind(); double x = sd.rand(); SYM_ASSERT(__sym_uniform_count() == 1, "a discrete draw consumes more than one uniform variate"); __sym_uniform_rewind(); double u = __sym_uniform01();
      double c = 0; int want = n - 1; for (int i = 0; i < n; i++) { c += pr[i]; if (u <= c) { want = i; break; } }
      SYM_ASSERT(x == val[want], "a discrete distribution's draw is not the class whose cumulative-probability interval contains the uniform variate"); }
    else if (law == 9) { double v = symd("value"); SYM_ASSUME(v > -100 && v < 100); ConstantDistribution cd(v); SYM_ASSERT(cd.randC() == v && cd.rand() == v, "the constant distribution draws something else than its value"); }
    else { double la = sympos("lambda");                                    // the exponential distribution's own draw has rate lambda
      ExponentialDiscreteDistribution ed(2, la); __sym_uniform_rewind(); double x = ed.randC(); if (__sym_uniform_count() != 1) return;   // (a draw outside the open support is redrawn: only first-draw acceptances are compared)
      __sym_uniform_rewind(); double u = __sym_uniform01();
      SYM_ASSERT_EQ(std::exp(-x * la), 1 - u, "the exponential distribution's continuous draw is not the quantile for its rate"); }
  } else if (which == 1) {
    // ---- weighted picks, cumulative-sum picks, multinomial draws: the index whose cumulative-weight interval contains u ----
    int n = __sym_choose("n", 1, NMAX); vector<double> w(n); double S = 0; vector<int> zero(n, 0); vector<int> v(n);
    for (int i = 0; i < n; i++) { v[i] = 10 + i; zero[i] = __sym_choose(("zeroWeight" + to_string(i)).c_str(), 0, 1); w[i] = zero[i] ? 0.0 : sympos("w" + to_string(i)); S += w[i]; }
    bool allZero = true; for (int i = 0; i < n; i++) if (!zero[i]) allZero = false; if (allZero) return;
    int op = __sym_choose("op", 0, 4);
    auto intervalOf = [&](const vector<double>& ww, double u, bool closedRight) { double s = 0, tot = 0; for (double x : ww) tot += x; int last = -1; for (size_t i = 0; i < ww.size(); i++) { s += ww[i]; if (closedRight ? (u * tot <= s) : (u * tot < s)) return (int)i; } return last; };
    if (op == 0) { int e = RandomTools::pickOne((const vector<int>&)v, (const vector<double>&)w); __sym_uniform_rewind(); double u = __sym_uniform01(); int k = intervalOf(w, u, false); if (k < 0) k = n - 1;
      SYM_ASSERT(e == v[k], "weighted pick is not the element whose cumulative-weight interval contains the uniform draw"); SYM_ASSERT(!zero[e - 10] || k == n - 1, "a zero-weight element was picked"); }
    else if (op == 1) { vector<int> v2 = v; vector<double> w2 = w; int e1 = RandomTools::pickOne(v2, w2, false); SYM_ASSERT((int)v2.size() == n - 1 && (int)w2.size() == n - 1, "pick without replacement did not remove one element and its weight");
      for (size_t i = 0; i < v2.size(); i++) { SYM_ASSERT(v2[i] != e1, "picked element still present"); SYM_ASSERT(w2[i] == w[v2[i] - 10], "after a pick without replacement an element no longer carries its own weight"); }
      if (n >= 2) { bool rest = false; for (double x : w2) if (x > 0) rest = true; if (rest) { int e2 = RandomTools::pickOne(v2, w2, false); SYM_ASSERT(e2 != e1 && e2 >= 10 && e2 < 10 + n, "second pick without replacement is not another source element"); SYM_ASSERT(!zero[e2 - 10] || true, ""); } } }
    else if (op == 2) { vector<double> cs(n); double s = 0; for (int i = 0; i < n; i++) { s += w[i] / S; cs[i] = s; } size_t k = RandomTools::pickFromCumSum(cs); __sym_uniform_rewind(); double u = __sym_uniform01();
      SYM_ASSERT(k < (size_t)n, "cumulative-sum pick out of range"); if (k + 1 < (size_t)n) SYM_ASSERT(u <= cs[k], "cumulative-sum pick: the draw is above the picked class"); if (k > 0) SYM_ASSERT(u > cs[k - 1], "cumulative-sum pick: the draw already fits an earlier class"); }
    else if (op == 3) { int m = __sym_choose("draws", 0, 2); vector<size_t> s = RandomTools::randMultinomial((size_t)m, w); SYM_ASSERT((int)s.size() == m, "multinomial: wrong number of draws"); __sym_uniform_rewind();
      for (int d = 0; d < m; d++) { double u = __sym_uniform01(); int k = intervalOf(w, u, true); SYM_ASSERT(k >= 0 && (int)s[d] == k, "multinomial draw is not the class whose cumulative-probability interval contains the uniform draw"); SYM_ASSERT(!zero[s[d]] || u == 0, "multinomial draw of a zero-probability class"); } }
    else { // sampling with weights: sizes, membership, distinctness, refusal
      int m = __sym_choose("sampleSize", 0, n + 1), repl = __sym_choose("replace", 0, 1); vector<int> out(m, -1); bool th = false;
      bool enoughMass = true; if (!repl) { int pos = 0; for (int i = 0; i < n; i++) if (!zero[i]) pos++; if (m > pos && m <= n) enoughMass = false; } if (!enoughMass) return;    // fewer positive-weight elements than requested: outside the claim
      try { RandomTools::getSample(v, w, out, repl != 0); } catch (IndexOutOfBoundsException&) { th = true; }
      SYM_ASSERT(th == (!repl && m > n), "weighted sampling: refusal differs from 'more requested than available without replacement'"); if (th) return;
      for (int i = 0; i < m; i++) { SYM_ASSERT(out[i] >= 10 && out[i] < 10 + n, "sample contains a foreign element"); if (!repl) for (int j = 0; j < i; j++) SYM_ASSERT(out[i] != out[j], "sampling without replacement returned an element twice"); }
    }
  } else if (which == 2) {
    // ---- random contingency tables: exactly the requested margins, for every random stream ----
    int nr = __sym_choose("rows", 2, 3), nc = __sym_choose("cols", 2, 3);
    vector<size_t> rt(nr), ct(nc); size_t tr = 0, tc = 0;
    for (int i = 0; i < nr; i++) { rt[i] = (size_t)__sym_choose(("r" + to_string(i)).c_str(), 0, TOTMAX); tr += rt[i]; }
    for (int j = 0; j < nc - 1; j++) { ct[j] = (size_t)__sym_choose(("c" + to_string(j)).c_str(), 0, TOTMAX); tc += ct[j]; }
    if (tc > tr || tr == 0 || tr > (size_t)TOTMAX) __sym_prune(); ct[nc - 1] = tr - tc;
    ContingencyTableGenerator g(rt, ct);
    RowMatrix<size_t> t = g.rcont2();
    SYM_ASSERT((int)t.getNumberOfRows() == nr && (int)t.getNumberOfColumns() == nc, "contingency table has the wrong shape");
    for (int i = 0; i < nr; i++) { size_t s = 0; for (int j = 0; j < nc; j++) { SYM_ASSERT(t(i, j) <= tr, "contingency table entry out of range (wrapped)"); s += t(i, j); } SYM_ASSERT(s == rt[i], "a row of the random table does not have the requested total"); }
    for (int j = 0; j < nc; j++) { size_t s = 0; for (int i = 0; i < nr; i++) s += t(i, j); SYM_ASSERT(s == ct[j], "a column of the random table does not have the requested total"); }
  } else if (which == 4) {
    // ---- independence test by permutation: the p-value lies in (0,1] and is (1 + number of random tables at least as extreme) / (1 + permutations), for every random stream ----
    int a = __sym_choose("n00", 0, 2), b = __sym_choose("n01", 0, 2), c = __sym_choose("n10", 0, 2), d = __sym_choose("n11", 0, 2); if (a + b == 0 || c + d == 0 || a + c == 0 || b + d == 0) __sym_prune();
    int perms = __sym_choose("permutations", 1, 2);
    vector<vector<size_t>> t{{(size_t)a, (size_t)b}, {(size_t)c, (size_t)d}};
    ContingencyTableTest test(t, (unsigned)perms, false);
    double p = test.getPValue(); SYM_ASSERT(p > 0 && p <= 1, "independence test: p-value outside (0,1]");
    bool ok = false; for (int k = 1; k <= perms + 1; k++) if (__sym_eq(p * (perms + 1), (double)k)) ok = true; SYM_ASSERT(ok, "independence test: p-value is not (count+1)/(permutations+1)");
    SYM_ASSERT(test.getStatistic() >= 0, "negative chi-square statistic");
  } else {
    // ---- unweighted sampling: structure (integer draws use the real generator with a fixed seed; the claim is structural) ----
    int n = __sym_choose("n", 0, 4), m = __sym_choose("sampleSize", 0, 5), repl = __sym_choose("replace", 0, 1);
    RandomTools::setSeed(12345u + (unsigned)(n * 7 + m));
    vector<int> v(n); for (int i = 0; i < n; i++) v[i] = 10 + i; vector<int> out(m, -1); bool th = false, empty = false;
    try { RandomTools::getSample(v, out, repl != 0); } catch (IndexOutOfBoundsException&) { th = true; } catch (EmptyVectorException<int>&) { empty = true; }
    if (repl && n == 0 && m > 0) { SYM_ASSERT(empty, "sampling with replacement from an empty source did not report emptiness"); return; }
    SYM_ASSERT(th == (!repl && m > n), "sampling: refusal differs from 'more requested than available without replacement'"); if (th) return;
    for (int i = 0; i < m; i++) { SYM_ASSERT(out[i] >= 10 && out[i] < 10 + n, "sample contains a foreign element"); if (!repl) for (int j = 0; j < i; j++) SYM_ASSERT(out[i] != out[j], "sampling without replacement returned an element twice"); }
    vector<int> e; bool th2 = false; try { RandomTools::pickOne((const vector<int>&)e); } catch (EmptyVectorException<int>&) { th2 = true; } SYM_ASSERT(th2, "picking from an empty vector did not report emptiness");
  }
}
