#include <Bpp/Numeric/Function/GoldenSectionSearch.h>
#include <Bpp/Numeric/Function/Functions.h>
#include <Bpp/Numeric/AbstractParametrizable.h>
#include <iostream>
#include <cmath>
using namespace bpp; using namespace std;
class Q : public virtual FunctionInterface, public AbstractParametrizable { public: double m; mutable int n=0;
 Q(double m_, double x0): AbstractParametrizable(""), m(m_) { addParameter_(new Parameter("x", x0)); }
 Q* clone() const override { return new Q(*this);} void setParameters(const ParameterList& pl) override { matchParametersValues(pl);} 
 double getValue() const override { double x=getParameterValue("x"); n++; cout << "  eval x=" << x << "\n"; return (x-m)*(x-m);} };
int main(int argc,char**argv){ double m=atof(argv[1]), tol=atof(argv[2]); auto f=make_shared<Q>(m,0.5); GoldenSectionSearch opt(f); opt.setVerbose(0); opt.setProfiler(nullptr); opt.setMessageHandler(nullptr);
  opt.setInitialInterval(0,1); opt.getStopCondition()->setTolerance(tol); opt.setMaximumNumberOfEvaluations(25); opt.init(f->getParameters());
 double r=opt.optimize(); double xr=opt.getParameters()[0].getValue(); cout<<"xr="<<xr<<" r="<<r<<" |xr-m|="<<fabs(xr-m)<<" tol2="<<2*(tol*fabs(xr)+1e-10)<<" reached="<<opt.isToleranceReached()<<" steps="<<opt.getNumberOfEvaluations()<<"\n"; }
