#include <Bpp/Numeric/Function/ThreePointsNumericalDerivative.h>
#include <Bpp/Numeric/AbstractParametrizable.h>
#include <iostream>
using namespace bpp; using namespace std;
class F : public virtual SecondOrderDerivable, public AbstractParametrizable {
public: F() : AbstractParametrizable("") { addParameter_(new Parameter("x", 1)); addParameter_(new Parameter("y", 2)); addParameter_(new Parameter("z", 3)); }
  F* clone() const override { return new F(*this); }
  void setParameters(const ParameterList& pl) override { matchParametersValues(pl); }
  double getValue() const override { return getParameterValue("x") * getParameterValue("y") * getParameterValue("z"); }
  void enableFirstOrderDerivatives(bool) override {} bool enableFirstOrderDerivatives() const override { return false; }
  void enableSecondOrderDerivatives(bool) override {} bool enableSecondOrderDerivatives() const override { return false; }
  double getFirstOrderDerivative(const string&) const override { return 0; } double getSecondOrderDerivative(const string&) const override { return 0; } double getSecondOrderDerivative(const string&, const string&) const override { return 0; }
};
int main() { auto f = make_shared<F>(); shared_ptr<SecondOrderDerivable> g = f; ThreePointsNumericalDerivative nd(g); nd.setInterval(0.01); nd.setParametersToDerivate({"x","y","z"}); nd.enableSecondOrderCrossDerivatives(true);
  ParameterList pl = f->getParameters(); nd.setParameters(pl);
  cout << "d2/dxdz = " << nd.getSecondOrderDerivative("x","z") << " (exact 2)  d2/dxdy = " << nd.getSecondOrderDerivative("x","y") << " (exact 3) d2/dydz=" << nd.getSecondOrderDerivative("y","z") << " (exact 1)\n";
  cout << "left at x=" << f->getParameterValue("x") << " y=" << f->getParameterValue("y") << " z=" << f->getParameterValue("z") << " (requested 1 2 3)\n"; }
