// C09: a discretised distribution is always a valid partition of its continuous parent (REAL mode).
// Class count, scheme-relevant toggles and the history step are forked; distribution parameters, restriction bounds and looked-up values are solver variables.
#include <Bpp/Numeric/Prob/UniformDiscreteDistribution.h>
#include <Bpp/Numeric/Prob/ExponentialDiscreteDistribution.h>
#include <Bpp/Numeric/Prob/TruncatedExponentialDiscreteDistribution.h>
#include <Bpp/Numeric/Prob/SimpleDiscreteDistribution.h>
#include <Bpp/Numeric/Prob/ConstantDistribution.h>
#include <Bpp/Numeric/Prob/MixtureOfDiscreteDistributions.h>
#include <Bpp/Numeric/Prob/InvariantMixedDiscreteDistribution.h>
#include <Bpp/Numeric/Constraints.h>
#include <Bpp/App/ApplicationTools.h>
#include "symrt.h"
#include <memory>
using namespace bpp;
using namespace std;
#ifndef NCMAX
#define NCMAX 3
#endif

static void checkNormalised(const DiscreteDistributionInterface& d, size_t n, const char* who) {
  SYM_ASSERT(d.getNumberOfCategories() == n, "wrong number of classes");
  Vdouble c = d.getCategories(), p = d.getProbabilities(); SYM_ASSERT(c.size() == n && p.size() == n, "category / probability vectors have the wrong length");
  double s = 0; for (size_t i = 0; i < n; i++) { SYM_ASSERT(p[i] >= 0, "negative class probability"); s += p[i]; if (i) SYM_ASSERT(c[i - 1] < c[i], "class values are not strictly increasing"); }
  SYM_ASSERT_EQ(s, 1.0, "class probabilities do not sum to one");
  for (size_t k = 0; k < n; k++) { double inf = 0, sup = 0; for (size_t i = 0; i < n; i++) { if (i < k) inf += p[i]; if (i > k) sup += p[i]; }
    SYM_ASSERT_EQ(d.getInfCumulativeProbability(c[k]), inf, "Pr(X < class) differs from the sum of the lower classes"); SYM_ASSERT_EQ(d.getIInfCumulativeProbability(c[k]), inf + p[k], "Pr(X <= class) differs");
    SYM_ASSERT_EQ(d.getSupCumulativeProbability(c[k]), sup, "Pr(X > class) differs from the sum of the upper classes"); SYM_ASSERT_EQ(d.getSSupCumulativeProbability(c[k]), sup + p[k], "Pr(X >= class) differs");
    SYM_ASSERT_EQ(d.getProbability(c[k]), p[k], "probability looked up by class value differs"); SYM_ASSERT(d.getCategory(k) == c[k] && d.getProbability(k) == p[k], "indexed access differs from the vectors"); }
  (void)who;
}
// looking up a class's own value returns that class (so every class value lies inside the domain), and a value strictly inside the domain is found in the class whose interval contains it
static void checkLookups(const DiscreteDistributionInterface& d, size_t n, const char* tag) {
  Vdouble c = d.getCategories(), b = d.getBounds();
  for (size_t k = 0; k < n; k++) { bool th = false; double v = 0; size_t idx = n;
    try { v = d.getValueCategory(c[k]); idx = d.getCategoryIndex(c[k]); } catch (Exception&) { th = true; }
    SYM_ASSERT(!th, "looking up a class's own value raised (the value lies outside the domain)"); SYM_ASSERT(v == c[k] && idx == k, "looking up a class's own value returns another class"); }
  if (b.size() == n + 1) { double x = symd(string("lookup") + tag); SYM_ASSUME(x > b[0] && x < b[n]); size_t k = 0; while (k + 1 < n && !(x < b[k + 1])) k++;
    SYM_ASSERT(d.getValueCategory(x) == c[k] && d.getCategoryIndex(x) == k, "lookup does not return the class whose interval contains the value"); }
}
// full validity against the continuous parent
static void checkPartition(const DiscreteDistributionInterface& d, size_t n, bool median, const char* who) {
  checkNormalised(d, n, who);
  Vdouble c = d.getCategories(), p = d.getProbabilities(), b = d.getBounds(); SYM_ASSERT(b.size() == n + 1, "bounds vector has the wrong length");
  double lo = d.getLowerBound(), hi = d.getUpperBound(); SYM_ASSERT(b[0] == lo && b[n] == hi, "outer bounds are not the domain");
  double mass = d.pProb(hi) - d.pProb(lo);
  double mean = 0;
  for (size_t i = 0; i < n; i++) { SYM_ASSERT(b[i] <= b[i + 1], "class bounds are not non-decreasing"); SYM_ASSERT(c[i] >= b[i] && c[i] <= b[i + 1], "a class value lies outside its own class interval");
    SYM_ASSERT_EQ(p[i] * mass, d.pProb(b[i + 1]) - d.pProb(b[i]), "a class probability differs from the parent's cumulative mass over its interval"); mean += p[i] * c[i]; }
  if (!median) SYM_ASSERT_EQ(mean * mass, d.Expectation(hi) - d.Expectation(lo), "with mean-valued classes the discrete mean differs from the parent's mean over the domain");
  // looking a value up returns the class whose interval contains it
  double x = symd("lookup"); SYM_ASSUME(x > lo && x < hi);
  size_t k = 0; while (k + 1 < n && !(x < b[k + 1])) k++;
  SYM_ASSERT(d.getValueCategory(x) == c[k], "value lookup does not return the class whose interval contains the value");
  SYM_ASSERT(d.getCategoryIndex(x) == k, "index lookup does not return the class whose interval contains the value");
  bool th = false; try { d.getValueCategory(hi + 1); } catch (Exception&) { th = true; } SYM_ASSERT(th, "lookup of a value outside the domain did not raise");
}

// A continuous parent supplied by the harness: two uniform pieces [a,m) and [m,b] carrying mass alpha and 1-alpha (piecewise-linear cdf, so that the
// equal-probability and equal-interval schemes really differ).  All of the discretisation, lookup and restriction logic is the library's.
class TwoPiece : public AbstractDiscreteDistribution {
public:
  double a_, m_, b_, al_;
  TwoPiece(size_t n, double a, double m, double b, double al, short scheme) : AbstractDiscreteDistribution(n, "TwoPiece.", scheme), a_(a), m_(m), b_(b), al_(al) {
    intMinMax_->setLowerBound(a, false); intMinMax_->setUpperBound(b, false); discretize(); }
  TwoPiece* clone() const override { return new TwoPiece(*this); }
  std::string getName() const override { return "TwoPiece"; }
  void fireParameterChanged(const ParameterList&) override {}
  double pProb(double x) const override { if (x <= a_) return 0; if (x >= b_) return 1; if (x < m_) return al_ * (x - a_) / (m_ - a_); return al_ + (1 - al_) * (x - m_) / (b_ - m_); }
  double qProb(double p) const override { if (p < al_) return a_ + p * (m_ - a_) / al_; return m_ + (p - al_) * (b_ - m_) / (1 - al_); }
  double Expectation(double x) const override { if (x <= a_) return 0; double e1 = al_ * ((x < m_ ? x : m_) * (x < m_ ? x : m_) - a_ * a_) / (2 * (m_ - a_)); if (x < m_) return e1; double y = x > b_ ? b_ : x; return e1 + (1 - al_) * (y * y - m_ * m_) / (2 * (b_ - m_)); }
};

extern "C" void verif_harness() {
  ApplicationTools::message = nullptr; ApplicationTools::warning = nullptr; ApplicationTools::error = nullptr;
  int which = __sym_choose("harness", HLO, HHI);
  if (which <= 1) {
    int n = __sym_choose("classes", 1, NCMAX);
    unique_ptr<AbstractDiscreteDistribution> d; double lo, hi; bool isUniformParent = true; int scheme = 1;
    if (which == 0) { int parent = __sym_choose("parent", 0, 1); double a = symd("min"), w = sympos("width"); SYM_ASSUME(w > 0.001);
      if (parent == 0) { d.reset(new UniformDiscreteDistribution((unsigned)n, a, a + w)); lo = a; hi = a + w; }
      else { double w2 = sympos("width2"), al = symd("alpha"); SYM_ASSUME(w2 > 0.001 && w2 < 100 && w < 100 && al > 0.01 && al < 0.99); scheme = __sym_choose("scheme", 1, 3); isUniformParent = false; d.reset(new TwoPiece((size_t)n, a, a + w, a + w + w2, al, (short)scheme)); lo = a; hi = a + w + w2; } }
    else { int fam = __sym_choose("family", 0, 1); double la = sympos("lambda"); SYM_ASSUME(la > 0.01 && la < 100);
      if (fam == 0) { d.reset(new ExponentialDiscreteDistribution((size_t)n, la)); lo = 0; hi = 50; } else { double tp = sympos("truncation"); SYM_ASSUME(tp > 0.01 && tp < 100); d.reset(new TruncatedExponentialDiscreteDistribution((size_t)n, la, tp)); lo = 0; hi = tp; } }
    bool median = false; size_t nn = n;
    int op = __sym_choose("then", 0, 3);      // 0 nothing, 1 median classes, 2 change the class count, 3 restrict to a sub-interval
    if (op == 1) { if (!isUniformParent) return;    // median classes are rescaled medians: for a skewed parent they need not stay inside their interval (by design); checked for the uniform family only
      d->setMedian(true); median = true; }
    else if (op == 2) { nn = (size_t)__sym_choose("newClasses", 1, NCMAX); d->setNumberOfCategories(nn); }
    else if (op == 3) { if (!isUniformParent && n > 1 && scheme != 2) return;      /* two-piece parent restricted under an equal-probability scheme: one class only (beyond that the sign conditions leave the solver's reach: measured) */
      double l = symd("rlo"), u = symd("rhi"); SYM_ASSUME(l > lo && u < hi && u - l > 0.001);
      if (!isUniformParent) { double m = dynamic_cast<TwoPiece&>(*d).m_; SYM_ASSUME((l - m > 0.001 || m - l > 0.001) && (u - m > 0.001 || m - u > 0.001)); }   /* the 1e-12 precision adjustments next to the kink are outside the claim */ d->restrictToConstraint(IntervalConstraint(l, u, true, true)); }
    checkPartition(*d, nn, median || scheme != 1, "after the step");    // (equal-interval classes are valued at interval midpoints, not class means)
  } else if (which == 3) {
    // ---- exponential families, continuous level (one class, so the discretiser's value-adjustment thresholds play no part): cumulative and quantile functions after a history step ----
    int fam = __sym_choose("family", 0, 1); double la = sympos("lambda"), tp = sympos("truncation"); SYM_ASSUME(la > 0.01 && la < 100 && tp > 0.01 && tp < 100);
    unique_ptr<AbstractDiscreteDistribution> d; if (fam == 0) d.reset(new ExponentialDiscreteDistribution(1, la)); else d.reset(new TruncatedExponentialDiscreteDistribution(1, la, tp));
    int op = __sym_choose("then", 0, fam == 0 ? 1 : 4);     // 0 nothing, 1 new rate, 2 new truncation point, 3 both at once, 4 truncation point then rate
    double la2 = sympos("lambda2"), tp2 = sympos("truncation2"); SYM_ASSUME(la2 > 0.01 && la2 < 100 && tp2 > 0.01 && tp2 < 100); SYM_ASSUME(la2 - la > 1e-6 || la - la2 > 1e-6); SYM_ASSUME(tp2 - tp > 1e-6 || tp - tp2 > 1e-6);
    if (op == 1 || op == 4) { if (op == 4) { d->setParameterValue("tp", tp2); tp = tp2; } d->setParameterValue("lambda", la2); la = la2; }
    else if (op == 2) { d->setParameterValue("tp", tp2); tp = tp2; }
    else if (op == 3) { ParameterList pl; pl.addParameter(Parameter(d->getNamespace() + "tp", tp2)); pl.addParameter(Parameter(d->getNamespace() + "lambda", la2)); d->matchParametersValues(pl); tp = tp2; la = la2; }
    SYM_ASSERT_EQ(d->getParameterValue("lambda"), la, "rate parameter differs from the value set"); if (fam == 1) { SYM_ASSERT_EQ(d->getParameterValue("tp"), tp, "truncation parameter differs from the value set"); SYM_ASSERT_EQ(d->getUpperBound(), tp, "support does not end at the truncation point"); }
    double x = sympos("x"), y = x + sympos("dx"); if (fam == 1) SYM_ASSUME(y < tp);
    double Fx = d->pProb(x), Fy = d->pProb(y);
    SYM_ASSERT(Fx >= 0 && Fx <= 1 && Fy >= 0 && Fy <= 1, "cumulative function leaves [0,1] inside the support"); SYM_ASSERT(Fx <= Fy, "cumulative function is not monotone");
    SYM_ASSERT(Fx < 1 && Fy < 1, "cumulative function reaches 1 before the end of the support");
    SYM_ASSERT_EQ(d->qProb(Fx), x, "quantile of the cumulative value is not the point");
    if (fam == 1) { SYM_ASSERT(d->pProb(tp) == 1.0, "cumulative function is not 1 at the truncation point"); SYM_ASSERT_EQ(d->qProb(1.0), tp, "quantile of 1 is not the truncation point"); }
    SYM_ASSERT(d->pProb(0.0) == 0.0, "cumulative function is not 0 at the lower end");
    double p = sympos("p"); SYM_ASSUME(p < 1); double q = d->qProb(p); SYM_ASSERT(q >= 0, "quantile is negative"); if (fam == 1) SYM_ASSERT(q <= tp, "quantile lies beyond the truncation point");
    SYM_ASSERT_EQ(d->pProb(q), p, "cumulative value of the quantile is not the probability");
    SYM_ASSERT(d->getNumberOfCategories() == 1, "class count changed"); SYM_ASSERT_EQ(d->getProbability((size_t)0), 1.0, "single class does not carry the whole mass");
    double c0 = d->getCategory(0); SYM_ASSERT(c0 >= 0, "class value below the support"); if (fam == 1) SYM_ASSERT(c0 <= tp, "class value beyond the truncation point");
  } else {
    // ---- compound and user-specified distributions: normalisation and cumulative consistency ----
    int kind = __sym_choose("kind", 0, 3);
    if (kind == 0) { int n = __sym_choose("classes", 1, NCMAX); vector<double> v(n), p(n); double s = 0, x = symd("v0"); SYM_ASSUME(x > -1e6 && x < 1e6);   /* (values beyond the library's "infinite" 1.7e23 are outside) */ for (int i = 0; i < n; i++) { v[i] = x; { double g = sympos("gap" + to_string(i)); SYM_ASSUME(g < 1e6); x = x + g + 0.001; } p[i] = sympos("w" + to_string(i)); s += p[i]; } for (auto& y : p) y = y / s;
      SimpleDiscreteDistribution d(v, p); checkNormalised(d, n, "simple"); checkLookups(d, n, "S"); Vdouble c = d.getCategories(), q = d.getProbabilities(); for (int i = 0; i < n; i++) { SYM_ASSERT(c[i] == v[i], "user-specified class value changed"); SYM_ASSERT_EQ(q[i], p[i], "user-specified probability changed"); } }
    else if (kind == 1) { double v = symd("value"); ConstantDistribution d(v); checkNormalised(d, 1, "constant"); SYM_ASSERT(d.getCategory(0) == v, "constant distribution has another value"); }
    else if (kind == 2) { double pinv = symd("pInvariant"); SYM_ASSUME(pinv > 0.001 && pinv < 0.999); int n = __sym_choose("classes", 1, NCMAX); double a = sympos("min"), w = sympos("width"); SYM_ASSUME(w > 0.001);
      // the invariant: 0 (the usual case, below every class) or any real, at least 0.001 away from every class value of the nested distribution (an invariant equal to a nested class value merges two classes: outside)
      int anywhere = __sym_choose("invariantAnywhere", 0, 1); double inv = anywhere ? symd("invariant") : 0.0;
      UniformDiscreteDistribution u((unsigned)n, a, a + w); int pos = 0; for (int i = 0; i < n; i++) { double ci = u.getCategory(i); SYM_ASSUME(inv - ci > 0.001 || ci - inv > 0.001); if (inv > ci) pos = i + 1; }
      InvariantMixedDiscreteDistribution d(unique_ptr<DiscreteDistributionInterface>(new UniformDiscreteDistribution((unsigned)n, a, a + w)), pinv, inv);
      int op = __sym_choose("then", 0, 2);    // one history step: nothing, a new invariant proportion, a new class count of the nested distribution
      if (op == 1) { double p2 = symd("pInvariant2"); SYM_ASSUME(p2 > 0.001 && p2 < 0.999); SYM_ASSUME(p2 - pinv > 1e-6 || pinv - p2 > 1e-6); d.setParameterValue("p", p2); pinv = p2; }
      else if (op == 2 && !anywhere) { n = __sym_choose("newClasses", 1, NCMAX); d.setNumberOfCategories((size_t)n); }   // (documented: the count of the nested distribution)
      checkNormalised(d, n + 1, "invariant-mixed"); checkLookups(d, n + 1, "I");
      UniformDiscreteDistribution u2((unsigned)n, a, a + w);
      SYM_ASSERT(d.getCategory((size_t)pos) == inv, "the invariant class is not at its place among the ordered class values"); SYM_ASSERT_EQ(d.getProbability((size_t)pos), pinv, "the invariant class does not carry the invariant proportion");
      for (int i = 0; i < n; i++) { size_t k = (size_t)(i < pos ? i : i + 1); SYM_ASSERT_EQ(d.getCategory(k), u2.getCategory(i), "variable classes differ from the sub-distribution's"); SYM_ASSERT_EQ(d.getProbability(k), (1 - pinv) * u2.getProbability((size_t)i), "variable class probability is not (1-p) times the sub-distribution's"); }
      Vdouble b = d.getBounds(), c = d.getCategories(); SYM_ASSERT(b.size() == (size_t)n + 2, "bounds vector of the invariant-mixed distribution has the wrong length");
      for (int k = 0; k <= n; k++) { SYM_ASSERT(b[k] <= b[k + 1], "class bounds are not non-decreasing"); SYM_ASSERT(c[k] >= b[k] && c[k] <= b[k + 1], "a class value lies outside its own class interval"); } }
    else { int nc = __sym_choose("components", 2, 3); vector<int> ncl(nc); vector<double> lo(nc), wd(nc), wt(nc); double S = 0, x = sympos("min1");
      for (int k = 0; k < nc; k++) { ncl[k] = __sym_choose(("classes" + to_string(k + 1)).c_str(), 1, 2); lo[k] = x; wd[k] = sympos("width" + to_string(k + 1)); SYM_ASSUME(wd[k] > 0.001); x = x + wd[k] + sympos("gap" + to_string(k + 1)) + 0.01; wt[k] = sympos("weight" + to_string(k + 1)); S += wt[k]; }
      vector<unique_ptr<DiscreteDistributionInterface>> comps; vector<double> pr(nc); for (int k = 0; k < nc; k++) { comps.emplace_back(new UniformDiscreteDistribution((unsigned)ncl[k], lo[k], lo[k] + wd[k])); pr[k] = wt[k] / S; }
      MixtureOfDiscreteDistributions d(comps, pr);
      // one history step: nothing, an update of one stick-breaking parameter, of all of them at once, a copy followed by an update of the copy, or a change of the class count
      int op = __sym_choose("then", 0, 4); vector<double> th(nc - 1); { double y = 1; for (int k = 0; k + 1 < nc; k++) { th[k] = pr[k] / y; y -= pr[k]; } }
      unique_ptr<MixtureOfDiscreteDistributions> cp; MixtureOfDiscreteDistributions* D = &d;
      if (op == 1 || op == 3) { int k = __sym_choose("theta", 1, nc - 1); double t = symd("newTheta"); SYM_ASSUME(t > 0.001 && t < 0.999); SYM_ASSUME(t - th[k - 1] > 1e-6 || th[k - 1] - t > 1e-6); if (op == 3) { cp.reset(d.clone()); D = cp.get(); } D->setParameterValue("theta" + to_string(k), t); th[k - 1] = t; }
      else if (op == 2) { ParameterList pl; for (int k = 1; k < nc; k++) { double t = symd("newTheta" + to_string(k)); SYM_ASSUME(t > 0.001 && t < 0.999); SYM_ASSUME(t - th[k - 1] > 1e-6 || th[k - 1] - t > 1e-6); pl.addParameter(Parameter("Mixture.theta" + to_string(k), t)); th[k - 1] = t; } d.matchParametersValues(pl); }
      else if (op == 4) { int nn = __sym_choose("newClasses", 1, 2); d.setNumberOfCategories((size_t)nn); for (int k = 0; k < nc; k++) ncl[k] = nn; }
      vector<double> w(nc); { double y = 1; for (int k = 0; k + 1 < nc; k++) { w[k] = th[k] * y; y *= 1 - th[k]; } w[nc - 1] = y; }
      int tot = 0; for (int k = 0; k < nc; k++) tot += ncl[k]; checkNormalised(*D, tot, "mixture"); checkLookups(*D, tot, "M");
      for (int k = 0; k < nc; k++) SYM_ASSERT_EQ(D->getNProbability((size_t)k), w[k], "mixture: component weight is not the stick-breaking weight of the current parameters");
      int off = 0; for (int k = 0; k < nc; k++) { UniformDiscreteDistribution u((unsigned)ncl[k], lo[k], lo[k] + wd[k]);
        for (int i = 0; i < ncl[k]; i++) SYM_ASSERT_EQ(D->getProbability((size_t)(off + i)), w[k] * u.getProbability((size_t)i), "mixture: class probability is not weight times component probability"); off += ncl[k]; }
      if (op == 3) { double y = 1; for (int k = 0; k < nc; k++) SYM_ASSERT_EQ(d.getNProbability((size_t)k), pr[k], "mixture: updating a copy changed the original's weights"); (void)y; } }
  }
}
